"""Independent G-code command reader (hand-written scanner, shares nothing with GcodeParser).

read(text)            RS274-style reading of an input command (spaces ignorable, no exponent)
read(text, True)      firmware-style reading of an output command: a number ends at the first
                      character outside [0-9.+-] (Marlin's value_float() cuts at 'E'/'e'), so an
                      exponent-formatted number is read as its mantissa - i.e. as a wrong value.
wellformed(text)      strict grammar of a synthesised command (C07)
"""
import math
import re

DIGITS = "0123456789"
NUMCH = "0123456789.+-"
TEXT_CODES = ("M117", "M118", "M23", "M28", "M30", "M928")


class Cmd(object):
    __slots__ = ("code", "sub", "words", "text", "raw", "exp_truncated")

    def __init__(self, code, sub, words, text, raw, exp_truncated=False):
        self.code = code          # e.g. "G1"
        self.sub = sub            # int | None
        self.words = words        # [(LETTER, float|None)]
        self.text = text          # free text argument for M117-like codes
        self.raw = raw
        self.exp_truncated = exp_truncated

    def get(self, letter, default=None):
        """Last value given for the letter (None if absent or valueless)."""
        val = default
        for l, v in self.words:
            if l == letter and v is not None:
                val = v
        return val

    def has(self, letter):
        return any(l == letter for l, _ in self.words)

    def has_value(self, letter):
        return any(l == letter and v is not None for l, v in self.words)

    def __repr__(self):
        return "Cmd(%s%s %r)" % (self.code, "" if self.sub is None else ".%d" % self.sub, self.words)


def _number_prefix(tok):
    """Longest prefix of tok that is [+-]?digits*[.digits*] with at least one digit -> float."""
    i = 0
    n = len(tok)
    if i < n and tok[i] in "+-":
        i += 1
    j = i
    while j < n and tok[j] in DIGITS:
        j += 1
    k = j
    if k < n and tok[k] == ".":
        k += 1
        while k < n and tok[k] in DIGITS:
            k += 1
    has_digit = (j > i) or (k > j + 1)
    if not has_digit:
        return None, 0
    return float(tok[:k]), k


def read(text, firmware=False):
    """Return a Cmd, or None when the text does not start with a G/M/T code."""
    s = text
    n = len(s)
    i = 0
    while i < n and s[i] == " ":
        i += 1
    # optional line number
    if i < n and s[i] in "Nn":
        j = i + 1
        while j < n and s[j] in DIGITS:
            j += 1
        if j > i + 1:
            i = j
            while i < n and s[i] == " ":
                i += 1
    if i >= n or s[i] not in "GgMmTt":
        return None
    typ = s[i].upper()
    i += 1
    while i < n and s[i] == " ":
        i += 1
    j = i
    while j < n and s[j] in DIGITS:
        j += 1
    if j == i:
        return None
    code = typ + str(int(s[i:j]))
    i = j
    sub = None
    if typ in "GM" and i < n and s[i] == "." and i + 1 < n and s[i + 1] in DIGITS:
        j = i + 1
        while j < n and s[j] in DIGITS:
            j += 1
        sub = int(s[i + 1:j])
        i = j
    rest = s[i:]
    # strip checksum / comment
    for stop in ("*", ";"):
        p = rest.find(stop)
        if p >= 0:
            rest = rest[:p]
    if code in TEXT_CODES:
        return Cmd(code, sub, [], rest.strip(), text)
    words = []
    exp_trunc = False
    k = 0
    m = len(rest)
    while k < m:
        ch = rest[k]
        if ch.isalpha() and ch.isascii():
            letter = ch.upper()
            k += 1
            while k < m and rest[k] == " ":
                k += 1
            t = k
            while t < m and rest[t] in NUMCH:
                t += 1
            val, used = _number_prefix(rest[k:t])
            if val is None:
                words.append((letter, None))
            else:
                words.append((letter, val))
                k = k + used
                if firmware:
                    # Marlin: skip the remaining number-ish characters; an 'e' that follows a
                    # number is where value_float() cut the value
                    # (an upper-case 'E' right after a number is the next parameter - Marlin's parser records every upper-case
                    # letter as one, which is what makes 'G1X5Y5E1.2' legal; a lower-case 'e' is not a letter to it)
                    k = t
                    if k < m and rest[k] == "e" and t > 0:
                        exp_trunc = True
                        k += 1
                        while k < m and rest[k] in NUMCH:
                            k += 1
        else:
            k += 1
    return Cmd(code, sub, words, None, text, exp_trunc)


# strict grammar of a synthesised command: one code, single spaces, LETTER + plain decimal
# one G/M code, then letter words with an optional plain-decimal number; spacing, case and an explicit '+' are free
_WF = re.compile(r"^\s*[GMgm]\d+(\.\d+)?(\s*[A-Za-z]\s*([-+]?(\d+\.?\d*|\.\d+))?)*\s*$")
_WORD = re.compile(r"\s*([A-Za-z])\s*([-+]?(?:\d+\.?\d*|\.\d+))?")


def wellformed(text):
    """(ok, reason, words) for the strict C07 grammar."""
    if not _WF.match(text):
        return False, "does not match the plain-decimal command grammar", []
    m0 = re.match(r"^\s*[GMgm]\d+(\.\d+)?", text)
    words = [(l.upper(), v) for l, v in _WORD.findall(text[m0.end():])]
    letters = [w[0] for w in words]
    if any(l in "GM" for l in letters):
        return False, "more than one G/M code in a generated command", words
    if len(set(letters)) != len(letters):
        return False, "repeated parameter letter", words
    for l, v in words:
        if v != "":
            try:
                f = float(v)
            except ValueError:
                return False, "unreadable number %r" % v, words
            if not math.isfinite(f):
                return False, "non-finite number %r" % v, words
    return True, "", words


def selftest():
    c = read("G1 X1.5 Y-2 E.5 F1200")
    assert c.code == "G1" and c.words == [("X", 1.5), ("Y", -2.0), ("E", 0.5), ("F", 1200.0)], c
    c = read("g1x1y2 x3")
    assert c.code == "G1" and c.get("X") == 3.0 and c.get("Y") == 2.0, c
    c = read("G92 E1e-05", True)
    assert c.get("E") == 1.0 and c.exp_truncated, c
    c = read("G0 F3000.0 X1.39e-16 Y5.0", True)
    assert c.get("X") == 1.39 and c.get("Y") == 5.0 and c.exp_truncated, c
    c = read("G1X-12Y-12E0.127", True)
    assert c.get("Y") == -12.0 and c.get("E") == 0.127 and not c.exp_truncated, c
    c = read("G28 X Y")
    assert c.has("X") and c.has("Y") and not c.has("Z") and not c.has_value("X"), c
    c = read("M117 Hello X1")
    assert c.code == "M117" and c.text == "Hello X1" and c.words == []
    c = read("N12 G1 X5*33 ; c")
    assert c.code == "G1" and c.get("X") == 5.0
    c = read("G38.2 Z-5")
    assert c.code == "G38" and c.sub == 2
    assert read("; comment") is None and read("@ExcludeRegion off") is None
    assert wellformed("G92 E1.5")[0] and wellformed("G0 F3000.0 X1.0 Y-2.5")[0] and wellformed("G10")[0]
    assert not wellformed("G92 E1e-05")[0] and not wellformed("G0 X1 X2")[0] and wellformed("G0  X1")[0] and wellformed("g0x+1.5y.5")[0]
    assert not wellformed("G0 X1 x2")[0] and not wellformed("G0 G1 X1")[0] and not wellformed("X1")[0] and not wellformed("G0 X1,5")[0]
    assert wellformed("M205 X Y5")[0] and not wellformed("G0 X1.5.2")[0] and not wellformed("G0 X--1")[0]
