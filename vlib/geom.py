"""Independent region geometry: closed membership tests (float and exact), tolerance-aware
classification, probe-point sets.  Shares no code with the plugin."""
import math
from decimal import Decimal, getcontext
from fractions import Fraction

getcontext().prec = 60


def norm_rect(r):
    x1, x2 = (r["x1"], r["x2"]) if r["x1"] <= r["x2"] else (r["x2"], r["x1"])
    y1, y2 = (r["y1"], r["y2"]) if r["y1"] <= r["y2"] else (r["y2"], r["y1"])
    return x1, y1, x2, y2


def in_region(reg, x, y):
    """Closed membership test in plain floats (oracle side)."""
    if reg["type"] == "rect":
        x1, y1, x2, y2 = norm_rect(reg)
        return x1 <= x <= x2 and y1 <= y <= y2
    dx = x - reg["cx"]
    dy = y - reg["cy"]
    return dx * dx + dy * dy <= reg["r"] * reg["r"] if reg["r"] >= 0 else False


def signed_dist(reg, x, y):
    """Signed distance of (x, y) to the border of reg: negative inside, positive outside."""
    if reg["type"] == "rect":
        x1, y1, x2, y2 = norm_rect(reg)
        dx = max(x1 - x, 0.0, x - x2)
        dy = max(y1 - y, 0.0, y - y2)
        if dx > 0 or dy > 0:
            return math.hypot(dx, dy)
        return -min(x - x1, x2 - x, y - y1, y2 - y)
    return math.hypot(x - reg["cx"], y - reg["cy"]) - reg["r"]


IN, OUT, EDGE = "IN", "OUT", "EDGE"


def classify(regions, x, y, margin):
    """IN: inside some region by more than margin; OUT: outside all by more than margin;
    EDGE otherwise.  margin == 0 means exact closed tests."""
    best = OUT
    for reg in regions:
        m = margin
        if m == 0:
            if reg["type"] == "rect" or _dyadic(reg["cx"], reg["cy"], reg["r"], x, y):
                # float comparisons are exact here: closed test, no band
                if in_region(reg, x, y):
                    return IN
                continue
            m = 1e-9
        d = signed_dist(reg, x, y)
        if d < -m:
            return IN
        if d <= m:
            best = EDGE
    return best


def _dyadic(*vals):
    for v in vals:
        if abs(v) > 4096 or (v * 64.0) != int(v * 64.0):
            return False
    return True


# ---------------------------------------------------------------- exact arithmetic (C17)

def exact_in_rect(reg, x, y):
    x1, y1, x2, y2 = norm_rect(reg)
    return Fraction(x1) <= Fraction(x) <= Fraction(x2) and Fraction(y1) <= Fraction(y) <= Fraction(y2)


def exact_circle_cmp(reg, x, y, tol):
    """-1 if the point is inside the disc by more than tol, +1 if outside by more than tol,
    0 if within tol of the border (exact rational arithmetic)."""
    cx, cy, r = Fraction(reg["cx"]), Fraction(reg["cy"]), Fraction(reg["r"])
    d2 = (Fraction(x) - cx) ** 2 + (Fraction(y) - cy) ** 2
    t = Fraction(tol)
    hi = r + t
    lo = r - t
    if hi < 0 or d2 > hi * hi:
        return 1
    if lo >= 0 and d2 < lo * lo:
        return -1
    return 0


def _D(v):
    return Decimal(v)


def stickout(outer, inner):
    """How far `inner` sticks out of `outer` (<= 0: contained), in high-precision decimal.
    Returns None when inner is empty (negative radius)."""
    if inner["type"] == "circ" and inner["r"] < 0:
        return None
    if outer["type"] == "rect":
        x1, y1, x2, y2 = [_D(v) for v in norm_rect(outer)]
        if inner["type"] == "rect":
            a1, b1, a2, b2 = [_D(v) for v in norm_rect(inner)]
        else:
            cx, cy, r = _D(inner["cx"]), _D(inner["cy"]), _D(inner["r"])
            a1, b1, a2, b2 = cx - r, cy - r, cx + r, cy + r
        return max(x1 - a1, a2 - x2, y1 - b1, b2 - y2)
    cx, cy, r = _D(outer["cx"]), _D(outer["cy"]), _D(outer["r"])
    if inner["type"] == "rect":
        a1, b1, a2, b2 = [_D(v) for v in norm_rect(inner)]
        far = max(((px - cx) ** 2 + (py - cy) ** 2).sqrt()
                  for px in (a1, a2) for py in (b1, b2))
        return far - r
    dx, dy, r2 = _D(inner["cx"]) - cx, _D(inner["cy"]) - cy, _D(inner["r"])
    return (dx * dx + dy * dy).sqrt() + r2 - r


def scale_of(*regs):
    s = 1.0
    for reg in regs:
        for k, v in reg.items():
            if k not in ("type", "id") and isinstance(v, (int, float)):
                s = max(s, abs(v))
    return s


def probes(reg, ring=32, pull=1 - 1e-9, grid=4):
    """Probe points of a region: (exact, points) where `exact` are corners / cardinal points
    computed with one float operation, and `points` the pulled-in ring + interior grid."""
    exact, pts = [], []
    if reg["type"] == "rect":
        x1, y1, x2, y2 = norm_rect(reg)
        exact = [(x1, y1), (x2, y1), (x2, y2), (x1, y2)]
        mx, my = (x1 + x2) / 2, (y1 + y2) / 2
        pts = [(mx, y1), (mx, y2), (x1, my), (x2, my), (mx, my)]
        for i in range(grid + 1):
            for j in range(grid + 1):
                pts.append((x1 + (x2 - x1) * i / grid, y1 + (y2 - y1) * j / grid))
        pts = [(min(max(px, x1), x2), min(max(py, y1), y2)) for px, py in pts]
    else:
        cx, cy, r = reg["cx"], reg["cy"], reg["r"]
        if r >= 0:
            exact = [(cx + r, cy), (cx - r, cy), (cx, cy + r), (cx, cy - r), (cx, cy)]
            for k in range(ring):
                a = 2 * math.pi * k / ring
                pts.append((cx + r * pull * math.cos(a), cy + r * pull * math.sin(a)))
                pts.append((cx + r * 0.5 * math.cos(a), cy + r * 0.5 * math.sin(a)))
    return exact, pts
