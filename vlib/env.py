"""Environment set-up shared by every check: import path of the code under test, offline
dependency self-heal, seeds, loggers.  Nothing here is an oracle."""
import logging
import os
import subprocess
import sys
import warnings

VERIF = os.path.dirname(os.path.dirname(os.path.abspath(__file__)))
REPO = os.environ.get("VERIF_REPO", "/repo")
DEPS = os.path.join(VERIF, ".deps")
WHEELS = "/opt/veriftools/wheels"

warnings.filterwarnings("ignore")
os.environ.setdefault("PYTHONWARNINGS", "ignore")

if REPO not in sys.path:
    sys.path.insert(0, REPO)
if VERIF not in sys.path:
    sys.path.insert(1, VERIF)


def _pip_target(*pkgs):
    os.makedirs(DEPS, exist_ok=True)
    subprocess.call(
        [sys.executable, "-m", "pip", "install", "-q", "--no-index", "--find-links", WHEELS,
         "--target", DEPS] + list(pkgs),
        stdout=subprocess.DEVNULL, stderr=subprocess.DEVNULL)


def ensure_hypothesis():
    try:
        import hypothesis  # noqa: F401
        return
    except ImportError:
        pass
    if DEPS not in sys.path:
        sys.path.insert(2, DEPS)
    try:
        import hypothesis  # noqa: F401
        return
    except ImportError:
        _pip_target("hypothesis", "sortedcontainers", "attrs")
        import importlib
        importlib.invalidate_caches()
    import hypothesis  # noqa: F401


def try_atheris():
    """Return the atheris module or None (optional secondary engine)."""
    try:
        import atheris
        return atheris
    except ImportError:
        pass
    if DEPS not in sys.path:
        sys.path.insert(2, DEPS)
    try:
        import atheris
        return atheris
    except ImportError:
        try:
            _pip_target("atheris")
            import importlib
            importlib.invalidate_caches()
            import atheris
            return atheris
        except Exception:  # pylint: disable=broad-except
            return None


def seed():
    try:
        return int(os.environ.get("VERIF_SEED", "1"))
    except ValueError:
        return 1


_LOGGERS = {}


class _FormatAndDrop(logging.Handler):
    def emit(self, record):
        record.getMessage()

    def handleError(self, record):
        raise  # pylint: disable=misplaced-bare-raise


def make_logger(debug=False):
    """A real logger that prints nothing; level ERROR (production default) or DEBUG."""
    key = "verif.excluderegion.%s" % ("debug" if debug else "error")
    if key not in _LOGGERS:
        lg = logging.getLogger(key)
        # the debug logger really formats its records (as the plugin's log file handler does) and throws the text away; an
        # exception raised while formatting is re-raised (logging.raiseExceptions only prints it), so that log statements
        # which mutate or break what they print do not go unnoticed
        lg.handlers = [_FormatAndDrop()] if debug else [logging.NullHandler()]
        lg.propagate = False
        lg.setLevel(logging.DEBUG if debug else logging.ERROR)
        _LOGGERS[key] = lg
    return _LOGGERS[key]


ensure_hypothesis()
