"""Core harness for the filter properties: drives GcodeHandlers + ExcludeRegionState with a
concrete case, executes the unfiltered and the forwarded stream on two reference printers and
computes the geometric episode oracle.  Property modules assert over the resulting trace."""
import re

from . import env, geom, gread
from .printer import Printer, close, MOVE_CODES

from octoprint_excluderegion.ExcludeRegionState import ExcludeRegionState
from octoprint_excluderegion.GcodeHandlers import GcodeHandlers
from octoprint_excluderegion.RectangularRegion import RectangularRegion
from octoprint_excluderegion.CircularRegion import CircularRegion
from octoprint_excluderegion.ExcludedGcode import ExcludedGcode
from octoprint_excluderegion.AtCommandAction import AtCommandAction

DEFAULT_EXT = {"G4": "exclude", "M204": "merge", "M205": "merge", "M117": "last", "M73": "merge"}
DEFAULT_AT = [
    {"command": "ExcludeRegion", "parameterPattern": "^\\s*(enable|on)(\\s|$)", "action": "enable_exclusion"},
    {"command": "ExcludeRegion", "parameterPattern": "^\\s*(disable|off)(\\s|$)", "action": "disable_exclusion"},
]


def make_region(reg):
    if reg["type"] == "rect":
        return RectangularRegion(x1=reg["x1"], y1=reg["y1"], x2=reg["x2"], y2=reg["y2"], id=reg.get("id"))
    return CircularRegion(cx=reg["cx"], cy=reg["cy"], r=reg["r"], id=reg.get("id"))


class Comm(object):
    """Stand-in for OctoPrint's MachineCom: records what @-command handling sends."""

    def __init__(self):
        self.sent = []
        self.streaming = False
        self.paused = False

    def isStreaming(self):  # noqa: N802
        return self.streaming

    # (the rest of MachineCom's state queries, as during a print from a local file - or while that print is paused)
    def isPrinting(self):  # noqa: N802
        return not self.paused

    def isPaused(self):  # noqa: N802
        return self.paused

    def isOperational(self):  # noqa: N802
        return True

    def isSdPrinting(self):  # noqa: N802
        return False

    def isBusy(self):  # noqa: N802
        return not self.paused

    def sendCommand(self, command, **kwargs):  # noqa: N802  pylint: disable=unused-argument
        self.sent.append(command)


def normalise(cmd, result):
    """Handler result -> list of forwarded commands (OctoPrint queuing-hook semantics)."""
    if result is None:
        return [cmd]
    if isinstance(result, tuple):
        return [] if result[0] is None else [result[0]]
    if isinstance(result, list):
        return [r[0] if isinstance(r, tuple) else r for r in result]
    return [result]


def fresh(value):
    if isinstance(value, str):
        return "".join(list(value)) if value else value
    if isinstance(value, dict):
        return dict((fresh(k), fresh(v)) for k, v in value.items())
    if isinstance(value, (list, tuple)):
        return [fresh(v) for v in value]
    return value


class DirectFilter(object):
    """GcodeHandlers + ExcludeRegionState configured as _handleSettingsUpdated would."""

    def __init__(self, config, regions):
        config = fresh(config)      # settings arrive from YAML / JSON: equal values, never the source code's own string objects
        logger = env.make_logger(bool(config.get("debug")))
        self.state = ExcludeRegionState(logger)
        self.handlers = GcodeHandlers(self.state, logger)
        self.state.g90InfluencesExtruder = bool(config.get("g90e"))
        self.state.enteringExcludedRegionGcode = list(config["enter"]) if config.get("enter") else None
        self.state.exitingExcludedRegionGcode = list(config["exit"]) if config.get("exit") else None
        ext = config.get("ext")
        if ext is None:
            ext = DEFAULT_EXT
        self.state.extendedExcludeGcodes = dict((g, ExcludedGcode(g, m, "")) for g, m in ext.items())
        table = {}
        for ent in (config.get("at") if config.get("at") is not None else DEFAULT_AT):
            act = AtCommandAction(ent["command"], ent.get("parameterPattern"), ent["action"], "")
            table.setdefault(act.command, []).append(act)
        self.state.atCommandActions = table
        for reg in regions:
            self.state.addRegion(make_region(reg))
        self.comm = Comm()

    def gcode(self, cmd):
        rd = gread.read(cmd)
        if rd is None:
            return None
        return self.handlers.handleGcode(cmd, rd.code if rd.code[0] != "T" else "T",
                                         None if rd.sub is None else str(rd.sub))

    def at(self, cmd, params, streaming=False):
        self.comm.sent = []
        self.comm.streaming = streaming is True
        self.comm.paused = streaming == "paused"       # the @-command arrives while the print is paused
        rv = self.handlers.handleAtCommand(self.comm, cmd, params)
        return rv, list(self.comm.sent)

    def add_region(self, reg):
        self.state.addRegion(make_region(reg))

    def delete_region(self, region_id):
        self.state.deleteRegion(region_id)

    def replace_region(self, reg):
        self.state.replaceRegion(make_region(reg), False)


class AtModel(object):
    """Independent evaluation of the @-command action table."""

    def __init__(self, table):
        self.table = table if table is not None else DEFAULT_AT

    def actions(self, cmd, params, streaming=False):
        if streaming:
            return []
        acts = []
        for ent in self.table:
            if ent["command"] != cmd:
                continue
            pat = ent.get("parameterPattern")
            if pat is None or re.match(pat, params if params is not None else ""):
                acts.append("enable" if ent["action"] == "enable_exclusion" else "disable")
        return acts


def script_lines(part):
    """OctoPrint accepts a script prefix / postfix as None, a string or a list of commands."""
    if not part:
        return []
    if isinstance(part, str):
        return [ln.strip() for ln in part.splitlines() if ln.strip()]
    return [c for c in part if c is not None]


class Item(object):
    """Trace of one program item."""

    def __init__(self, idx, item):
        self.idx = idx
        self.item = item
        self.kind = item[0]
        self.cmd = item[1] if self.kind in ("g", "at") else None
        self.active_before = self.active_after = True
        self.u_before = self.u_after = None
        self.u_step = None
        self.f_before = None
        self.out = []
        self.raw = None
        self.f_steps = []         # [(Step, snap_after)]
        self.cls = None
        self.is_move = False
        self.open_before = self.open_after = False
        self.enabled_before = self.enabled_after = True
        self.opening = self.closing = False
        self.exception = None
        self.scale = 0.0
        self.regions = None       # regions in force when the item was processed
        self.margin = 0.0


def classify_arc(regions, arc, margin):
    if not regions:
        return geom.OUT
    pts, spacing = arc.points()
    if geom.classify(regions, arc.ex, arc.ey, max(margin, 1e-9)) == geom.IN:
        return geom.IN
    clear = True
    for reg in regions:
        run = 0
        for (x, y) in pts[:-1]:
            d = geom.signed_dist(reg, x, y)
            if d <= margin + spacing:
                clear = False
            if d < -margin:
                run += 1
                if run * spacing > arc.unit * 1.0 + 2 * spacing + margin:
                    return geom.IN
            else:
                run = 0
    return geom.OUT if clear else geom.EDGE


class Trace(object):
    def __init__(self):
        self.items = []
        self.truncated = False
        self.truncated_at = None
        self.pu = None
        self.pf = None
        self.episodes_opened = 0
        self.episodes_closed = 0


def state_snapshot(state):
    """Deep, comparable snapshot of the plugin's tracking state (read-only attribute access)."""
    pos = state.position
    lr = state.lastRetraction
    return {
        "pos": tuple((a.current, a.offset, a.homeOffset, a.absoluteMode, a.unitMultiplier)
                     for a in (pos.X_AXIS, pos.Y_AXIS, pos.Z_AXIS, pos.E_AXIS)),
        "feed": (state.feedRate, state.feedRateUnitMultiplier),
        "enabled": state.isExclusionEnabled(),
        "excluding": state.excluding,
        "retraction": None if lr is None else (lr.firmwareRetract, lr.extrusionAmount, lr.feedRate,
                                                lr.recoverExcluded, lr.allowCombine, lr.originalCommand),
        "pending": [(k, dict(v) if hasattr(v, "items") else v) for k, v in state.pendingCommands.items()],
        "regions": [r.toDict() for r in state.excludedRegions],
    }


def run(case, filter_factory=DirectFilter, stop_on_exception=True, observer=None):  # noqa: C901
    """Execute a concrete case.  case = {"config":…, "regions":[…], "prog":[item…]} with items
    ["g", cmd] | ["at", cmd, params, streaming?] | ["reg", region]."""
    config = case.get("config", {})
    regions = [dict(r) for r in case.get("regions", [])]
    if case.get("via") == "plugin" and filter_factory is DirectFilter:
        # same case through the plugin object and its queuing hooks (settings splitting, OctoPrint's code extraction)
        from .plugin_harness import PluginFilter
        filter_factory = PluginFilter
    flt = filter_factory(config, regions)
    g90e = bool(config.get("g90e"))
    pu = Printer(g90e)
    pf = Printer(g90e, firmware_read=True)
    atm = AtModel(config.get("at"))
    tr = Trace()
    tr.pu, tr.pf = pu, pf
    enabled = True
    is_open = False
    active = True
    scale = 0.0
    ever_nontrivial = False
    for idx, item in enumerate(case["prog"]):
        it = Item(idx, item)
        it.open_before, it.enabled_before, it.active_before = is_open, enabled, active
        it.regions = list(regions)
        it.u_before = pu.snap()
        it.f_before = pf.snap()
        if observer is not None:
            it.state_before = state_snapshot(flt.state)
        if it.kind == "reg":
            regions.append(dict(item[1]))
            try:
                flt.add_region(item[1])
            except Exception as exc:  # pylint: disable=broad-except
                it.exception = "%s: %s" % (type(exc).__name__, exc)
            it.regions = list(regions)
        elif it.kind == "unreg":
            # ["unreg", id]: the user deletes a region mid-print (allowed when shrinking is permitted); an open episode
            # simply continues until the next move whose destination is outside every remaining region
            regions[:] = [r for r in regions if r.get("id") != item[1]]
            try:
                flt.delete_region(item[1])
            except Exception as exc:  # pylint: disable=broad-except
                it.exception = "%s: %s" % (type(exc).__name__, exc)
            it.regions = list(regions)
        elif it.kind == "rereg":
            # ["rereg", region]: the user edits a region mid-print (same id, new geometry; shrinking permitted)
            regions[:] = [dict(item[1]) if r.get("id") == item[1].get("id") else r for r in regions]
            try:
                flt.replace_region(item[1])
            except Exception as exc:  # pylint: disable=broad-except
                it.exception = "%s: %s" % (type(exc).__name__, exc)
            it.regions = list(regions)
        elif it.kind == "g":
            step = pu.execute(it.cmd)
            it.u_step = step
            if not pu.trivial_frame():
                ever_nontrivial = True
            it.margin = 1e-6 if ever_nontrivial else 0.0
            rd = step.read
            if rd is not None and rd.code in MOVE_CODES and step.is_move:
                it.is_move = True
                if step.arc is not None:
                    it.cls = classify_arc(regions, step.arc, max(it.margin, 1e-6))
                else:
                    it.cls = geom.classify(regions, pu.x, pu.y, it.margin)
                if enabled:
                    if it.cls == geom.EDGE:
                        tr.truncated = True
                        tr.truncated_at = idx
                        break
                    if not is_open and it.cls == geom.IN:
                        is_open = True
                        it.opening = True
                        tr.episodes_opened += 1
                    elif is_open and it.cls == geom.OUT:
                        is_open = False
                        it.closing = True
                        tr.episodes_closed += 1
            try:
                it.raw = flt.gcode(it.cmd)
                it.out = normalise(it.cmd, it.raw)
            except Exception as exc:  # pylint: disable=broad-except
                it.exception = "%s: %s" % (type(exc).__name__, exc)
        elif it.kind == "hook":
            # ["hook", scriptType, scriptName]: octoprint.comm.protocol.scripts hook (plugin layer only)
            if active and is_open and item[1] == "gcode" and item[2] == "afterPrintDone":
                is_open = False
                it.closing = True
                tr.episodes_closed += 1
            try:
                it.raw = flt.h.script(item[1], item[2])
                if it.raw is not None:
                    it.out = script_lines(it.raw[0]) + script_lines(it.raw[1] if len(it.raw) > 1 else None)
            except Exception as exc:  # pylint: disable=broad-except
                it.exception = "%s: %s" % (type(exc).__name__, exc)
        elif it.kind == "set_at":
            # ["set_at", table]: the user changes the @-command action table in the settings (takes effect at once)
            atm = AtModel(item[1])
            try:
                if hasattr(flt, "h"):
                    flt.h.update_settings(atCommandActions=[dict(e, description="") for e in item[1]])
                else:
                    table = {}
                    for ent in item[1]:
                        act = AtCommandAction(ent["command"], ent.get("parameterPattern"), ent["action"], "")
                        table.setdefault(act.command, []).append(act)
                    flt.state.atCommandActions = table
            except Exception as exc:  # pylint: disable=broad-except
                it.exception = "%s: %s" % (type(exc).__name__, exc)
        elif it.kind == "set_ext":
            # ["set_ext", {code: mode}]: the user changes the extended G-code table in the settings (takes effect at once)
            try:
                if hasattr(flt, "h"):
                    flt.h.update_settings(extendedExcludeGcodes=[{"gcode": g, "mode": m, "description": ""} for g, m in item[1].items()])
                else:
                    flt.state.extendedExcludeGcodes = dict((fresh(g), ExcludedGcode(fresh(g), fresh(m), "")) for g, m in item[1].items())
            except Exception as exc:  # pylint: disable=broad-except
                it.exception = "%s: %s" % (type(exc).__name__, exc)
        elif it.kind == "event":
            # ["event", NAME]: OctoPrint event delivered to the plugin (plugin layer only)
            if item[1] == "PRINT_STARTED":
                active, is_open, enabled = True, False, True
            elif item[1] in ("PRINT_DONE", "PRINT_FAILED", "PRINT_CANCELLING", "PRINT_CANCELLED", "ERROR"):
                active = False
            try:
                if hasattr(flt, "h"):          # (events only exist at the plugin layer)
                    flt.h.event(item[1], dict(item[2]) if len(item) > 2 and item[2] else None)
            except Exception as exc:  # pylint: disable=broad-except
                it.exception = "%s: %s" % (type(exc).__name__, exc)
        elif it.kind == "at":
            streaming = item[3] if len(item) > 3 else False
            for act in atm.actions(item[1], item[2], streaming is True):
                if act == "disable":
                    if enabled and is_open:
                        is_open = False
                        it.closing = True
                        tr.episodes_closed += 1
                    enabled = False
                else:
                    enabled = True
            try:
                it.raw, it.out = flt.at(item[1], item[2], streaming)
            except Exception as exc:  # pylint: disable=broad-except
                it.exception = "%s: %s" % (type(exc).__name__, exc)
        for cmd in it.out:
            st = pf.execute(cmd) if isinstance(cmd, str) else None
            it.f_steps.append((st, pf.snap()))
        it.u_after = pu.snap()
        # largest coordinate magnitude either printer has held so far: float round-off of positions that passed through
        # such values is a few ulp of *that* magnitude, whatever the current value is
        for snap in [it.u_after] + [sn for _, sn in it.f_steps]:
            for v in snap[:5]:
                if v is not None and abs(v) > scale:
                    scale = abs(v)
        it.scale = scale
        it.open_after, it.enabled_after, it.active_after = is_open, enabled, active
        if observer is not None:
            observer(it, flt)
        tr.items.append(it)
        if it.exception and stop_on_exception:
            break
    tr.flt = flt
    return tr


# snapshot field indices (Printer.snap)
X, Y, Z, E, FIL, HWM, FW, ABS, EABS, U, FEED = range(11)


def xyz_close(a, b, tol=1e-6):
    return close(a[X], b[X], tol) and close(a[Y], b[Y], tol) and close(a[Z], b[Z], tol)
