"""Check runner: tiers, shards, replay, known findings, evidence.

usage: python -m vlib.runner <ID> [--tier quick|thorough] [--replay FILE]

exit 0 = property held on everything explored (KNOWN-FINDING lines allowed)
exit 1 = violation ("VIOLATION property=<ID> replay=<path>")
exit 2 = harness error (never a violation)
"""
import argparse
import collections
import glob
import hashlib
import importlib
import json
import multiprocessing
import os
import sys
import time
import traceback

from . import env, kf

# the two overrides exist only for tools/mut.py (scratch sensitivity runs); no registered command sets them
OUT = os.environ.get("VERIF_OUT_DIR", os.path.join(env.VERIF, "out"))
EVID = os.environ.get("VERIF_EVIDENCE_DIR", os.path.join(env.VERIF, "evidence"))
REPLAYS = os.path.join(env.VERIF, "replays")
NSHARDS = 16


def canon(case):
    return json.dumps(case, sort_keys=True, separators=(",", ":"), default=str)


def chash(case):
    return hashlib.sha1(canon(case).encode("utf-8")).hexdigest()[:16]


class Failure(AssertionError):
    """Raised inside a Hypothesis test body when run_case reported findings."""


class Collector(object):
    """Per-process statistics and failure bookkeeping."""

    def __init__(self, shrink_budget=3000, max_samples=4):
        self.evals = 0
        self.nontrivial = set()
        self.classes = collections.Counter()
        self.samples = []
        self.max_samples = max_samples
        self.excluded_known = 0
        self.truncated = 0
        self.failing = None
        self.fail_hashes = set()
        self.calls_after_fail = 0
        self.shrink_budget = shrink_budget
        self.shrink_wall = 40.0 if shrink_budget <= 2000 else 150.0
        self.t_fail = None
        self.extra = collections.Counter()

    def note(self, case, findings, info, h=None):
        """Record one executed case."""
        self.evals += 1
        if h is None:
            h = chash(case)
        for c in info.get("classes", ()):
            self.classes[c] += 1
        self.excluded_known += int(info.get("excluded_known", 0))
        self.truncated += int(bool(info.get("truncated", False)))
        for k, v in info.get("extra", {}).items():
            self.extra[k] += v
        if info.get("nontrivial"):
            if h not in self.nontrivial:
                self.nontrivial.add(h)
                if len(self.samples) < self.max_samples:
                    self.samples.append(info.get("sample", case))
        if findings:
            self.failing = (case, findings)
            self.fail_hashes.add(h)
            if self.t_fail is None:
                self.t_fail = time.time()

    def shrink_exhausted(self):
        """True once a failure is known and the shrink budget (executions or wall time) is used up.  From then on
        every case is reported as failing without being run, which makes Hypothesis' shrinker collapse and stop at once;
        the replay file is the smallest case that *really* failed (self.failing), not what Hypothesis ends on."""
        return self.failing is not None and (self.calls_after_fail > self.shrink_budget or
                                             time.time() - self.t_fail > self.shrink_wall)

    def check(self, mod, case):
        """Body of a @given test: run the case, raise Failure on findings.

        Once a failure is known, at most `shrink_budget` further cases are really executed;
        after that only already-known failing cases fail, which makes the shrinker stop
        quickly while staying consistent (no flakiness)."""
        h = chash(case)
        if self.failing is not None:
            self.calls_after_fail += 1
            if self.shrink_exhausted():
                raise Failure("shrink budget exhausted")
        findings, info = mod.run_case(case)
        self.note(case, findings, info, h)
        if findings:
            raise Failure("; ".join("%s: %s" % (f.get("tag"), f.get("msg")) for f in findings[:3]))

    def export(self):
        return {
            "evals": self.evals,
            "nontrivial": sorted(self.nontrivial),
            "classes": dict(self.classes),
            "samples": self.samples,
            "excluded_known": self.excluded_known,
            "truncated": self.truncated,
            "failing": self.failing,
            "extra": dict(self.extra),
        }


def hyp_settings(mod, tier, stateful=False):
    from hypothesis import settings, HealthCheck, Phase
    n = mod.BUDGET[tier]
    kw = dict(
        max_examples=n, deadline=None, database=None, derandomize=False,
        report_multiple_bugs=False, print_blob=False,
        suppress_health_check=[HealthCheck.too_slow, HealthCheck.data_too_large,
                               HealthCheck.large_base_example],
        phases=[Phase.generate, Phase.shrink],
    )
    if stateful:
        kw["stateful_step_count"] = getattr(mod, "STEPS", {"quick": 30, "thorough": 60})[tier]
    return settings(**kw)


def run_shard(args):
    """Run one Hypothesis campaign in this process; returns the exported collector."""
    prop, tier, seedval, shard = args
    try:
        import hypothesis
        from hypothesis import given
        mod = importlib.import_module("props." + prop.lower())
        col = Collector(shrink_budget=getattr(mod, "SHRINK_BUDGET", {"quick": 1500, "thorough": 6000})[tier])
        s = seedval * 1000 + shard
        err = None
        try:
            if hasattr(mod, "machine"):
                from hypothesis.stateful import run_state_machine_as_test
                cls = mod.machine(tier, col)
                run_state_machine_as_test(hypothesis.seed(s)(cls), settings=hyp_settings(mod, tier, True))
            else:
                strat = mod.strategy(tier)

                @hypothesis.seed(s)
                @hyp_settings(mod, tier)
                @given(strat)
                def test(case):
                    col.check(mod, case)

                test()
            if hasattr(mod, "extra_engines"):
                mod.extra_engines(tier, col, s)
            elif tier == "thorough" and not hasattr(mod, "machine") and shard < 4:
                # secondary engine: coverage-guided fuzzing with the Hypothesis strategy as structured decoder
                from . import fuzz
                res = fuzz.campaign(prop, getattr(mod, "FUZZ_RUNS", 3000), s)
                col.extra["atheris_available"] += int(res["available"])
                col.extra["atheris_execs"] += res["execs"]
                col.extra["atheris_distinct_nontrivial"] += res["nontrivial"]
                if res["failing_case"]:
                    case, findings = res["failing_case"]
                    col.note(case, findings, {"nontrivial": True})
                    raise Failure("atheris: " + findings[0]["msg"])
        except Failure:
            pass
        except AssertionError:
            # state machines assert directly; the machine has recorded the failing case
            if col.failing is None:
                err = traceback.format_exc()
        except Exception:  # pylint: disable=broad-except
            if col.failing is None:
                err = traceback.format_exc()
        out = col.export()
        out["shard"] = shard
        out["seed"] = s
        out["error"] = err
        return out
    except Exception:  # pylint: disable=broad-except
        return {"shard": shard, "error": traceback.format_exc(), "evals": 0, "nontrivial": [],
                "classes": {}, "samples": [], "excluded_known": 0, "truncated": 0,
                "failing": None, "extra": {}, "seed": seedval}


def write_evidence(mod, tier, seedval, cov, wall, violations):
    os.makedirs(EVID, exist_ok=True)
    ev = {
        "property_id": mod.ID,
        "tier": tier,
        "seed": seedval,
        "level": "exploration",
        "coverage": cov,
        "assumptions": list(getattr(mod, "ASSUMPTIONS", [])),
        "wall_s": round(wall, 2),
        "violations": violations,
    }
    path = os.path.join(EVID, mod.ID + ".json")
    with open(path, "w") as fh:
        json.dump(ev, fh, indent=1, sort_keys=True, default=str)
        fh.write("\n")


def save_violation(mod, seedval, case, findings):
    os.makedirs(OUT, exist_ok=True)
    name = "%s-%s-%s.json" % (mod.ID, seedval, chash(case))
    path = os.path.join(OUT, name)
    with open(path, "w") as fh:
        json.dump({"property": mod.ID, "case": case, "findings": findings}, fh, indent=1, default=str)
        fh.write("\n")
    return os.path.relpath(path, env.VERIF)


def load_case(path):
    with open(path) as fh:
        doc = json.load(fh)
    return doc["case"] if isinstance(doc, dict) and "case" in doc else doc


def do_replay(mod, path):
    case = load_case(path)
    findings, _info = mod.run_case(case, strict=True)
    for f in findings:
        print("finding %s: %s" % (f.get("tag"), f.get("msg")))
    if findings:
        print("VIOLATION property=%s replay=%s" % (mod.ID, path))
        return 1
    print("replay ok: no findings")
    return 0


def bucket(findings):
    return ",".join(sorted(set(f.get("tag", "?") for f in findings)))


def main(argv=None):
    ap = argparse.ArgumentParser()
    ap.add_argument("prop")
    ap.add_argument("--tier", default=os.environ.get("VERIF_TIER", "quick"), choices=["quick", "thorough"])
    ap.add_argument("--replay")
    ns = ap.parse_args(argv)
    prop = ns.prop.upper()
    try:
        mod = importlib.import_module("props." + prop.lower())
    except Exception:  # pylint: disable=broad-except
        traceback.print_exc()
        print("HARNESS-ERROR: cannot import check module for %s" % prop)
        return 2

    if ns.replay:
        try:
            return do_replay(mod, ns.replay)
        except Exception:  # pylint: disable=broad-except
            traceback.print_exc()
            print("HARNESS-ERROR: replay failed to run")
            return 2

    tier = ns.tier
    seedval = env.seed()
    t0 = time.time()
    violations = []   # (path, findings)
    known_lines = []

    # 0. oracle self-test
    if hasattr(mod, "selftest"):
        try:
            mod.selftest()
        except Exception:  # pylint: disable=broad-except
            traceback.print_exc()
            print("HARNESS-ERROR: oracle self-test failed")
            return 2

    # 1. committed replays: open known findings and regression inputs
    open_repro = {}
    for e in kf.entries(prop, "open"):
        open_repro[os.path.normpath(e["reproducer"])] = e
    replayed = 0
    try:
        for path in sorted(glob.glob(os.path.join(REPLAYS, prop, "*.json"))):
            rel = os.path.normpath(os.path.relpath(path, env.VERIF))
            case = load_case(path)
            replayed += 1
            if rel in open_repro:
                e = open_repro[rel]
                findings, _ = mod.run_case(case, strict=True)
                tags = set(f.get("tag") for f in findings)
                allowed = set(e.get("tags", []))
                if findings and tags <= allowed:
                    known_lines.append("KNOWN-FINDING: property=%s %s (%s)" % (prop, e["what"], e["id"]))
                elif findings:
                    violations.append((rel, findings))
                else:
                    print("note: known finding %s no longer reproduces on this tree" % e["id"])
            else:
                findings, _ = mod.run_case(case)
                if findings:
                    violations.append((rel, findings))
    except Exception:  # pylint: disable=broad-except
        traceback.print_exc()
        print("HARNESS-ERROR: replay tier failed to run")
        return 2

    # 2. generated search
    shards = getattr(mod, "SHARDS", {"quick": 1, "thorough": NSHARDS})[tier]
    jobs = [(prop, tier, seedval, i) for i in range(shards)]
    if shards == 1:
        results = [run_shard(jobs[0])]
    else:
        ctx = multiprocessing.get_context("fork")
        with ctx.Pool(min(shards, NSHARDS)) as pool:
            results = pool.map(run_shard, jobs, chunksize=1)

    errors = [r for r in results if r.get("error")]
    if errors:
        for r in errors:
            print("shard %s error:\n%s" % (r["shard"], r["error"]))
        print("HARNESS-ERROR: %d shard(s) failed to run" % len(errors))
        return 2

    evals = sum(r["evals"] for r in results)
    nontrivial = set()
    classes = collections.Counter()
    extra = collections.Counter()
    samples = []
    for r in results:
        nontrivial.update(r["nontrivial"])
        classes.update(r["classes"])
        extra.update(r["extra"])
        for s in r["samples"]:
            if len(samples) < 4:
                samples.append(s)
    seen_buckets = set()
    for r in results:
        if r["failing"]:
            case, findings = r["failing"]
            b = bucket(findings)
            if b in seen_buckets:
                continue
            seen_buckets.add(b)
            violations.append((save_violation(mod, r["seed"], case, findings), findings))

    wall = time.time() - t0
    cov = {
        "evaluations": evals,
        "distinct_nontrivial": len(nontrivial),
        "rule": mod.RULE,
        "samples": samples,
        "classes": dict(sorted(classes.items())),
        "excluded_known": sum(r["excluded_known"] for r in results),
        "truncated_borderline": sum(r["truncated"] for r in results),
        "replayed_regression_inputs": replayed,
        "shards": [{"shard": r["shard"], "seed": r["seed"], "evaluations": r["evals"]} for r in results],
        "exhaustive": False,
    }
    if extra:
        cov["extra"] = dict(sorted(extra.items()))
    write_evidence(mod, tier, seedval, cov, wall, len(violations))

    for line in known_lines:
        print(line)
    print("%s tier=%s seed=%s evaluations=%d distinct_nontrivial=%d wall=%.1fs" % (
        prop, tier, seedval, evals, len(nontrivial), wall))
    if violations:
        for path, findings in violations:
            for f in findings[:5]:
                print("  finding %s: %s" % (f.get("tag"), f.get("msg")))
            print("VIOLATION property=%s replay=%s" % (prop, path))
        return 1
    if evals < 1 or len(nontrivial) < 2:
        print("HARNESS-ERROR: generator produced too few non-trivial cases")
        return 2
    return 0


if __name__ == "__main__":
    sys.exit(main())
