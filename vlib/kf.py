"""Known findings file (committed, read-only at run time)."""
import json
import os

from .env import VERIF

PATH = os.path.join(VERIF, "known_findings.json")

_CACHE = None


def load():
    global _CACHE  # pylint: disable=global-statement
    if _CACHE is None:
        if os.path.exists(PATH):
            with open(PATH) as fh:
                _CACHE = json.load(fh).get("findings", [])
        else:
            _CACHE = []
    return _CACHE


def entries(prop=None, status=None):
    return [e for e in load()
            if (prop is None or e["property"] == prop) and (status is None or e["status"] == status)]


def is_open(kfid):
    """True when a finding with this id is listed as open (its input class is then excluded)."""
    for e in load():
        if (e["id"] == kfid or e.get("root") == kfid) and e["status"] == "open":
            return True
    return False
