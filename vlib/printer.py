"""Reference printer: a small Marlin-1.1-like interpreter of the dialect the plugin documents.

It shares no code with the plugin and reads commands with vlib.gread.  All positions are
physical millimetres.  It is the trusted base of the filtered-vs-unfiltered comparisons."""
import math

from . import gread

MOVE_CODES = ("G0", "G1", "G2", "G3")


class ArcGeom(object):
    """True geometry of an executed arc in physical mm."""
    __slots__ = ("cx", "cy", "r", "a0", "sweep", "ex", "ey", "sx", "sy", "unit")

    def __init__(self, cx, cy, r, a0, sweep, sx, sy, ex, ey, unit):
        self.cx, self.cy, self.r, self.a0, self.sweep = cx, cy, r, a0, sweep
        self.sx, self.sy, self.ex, self.ey, self.unit = sx, sy, ex, ey, unit

    def points(self, per_unit=16, minimum=96):
        """Dense samples of the true arc (physical), including both end points."""
        length_units = abs(self.sweep) * self.r / self.unit
        n = max(minimum, int(math.ceil(length_units * per_unit)))
        pts = []
        for k in range(n + 1):
            a = self.a0 + self.sweep * k / n
            pts.append((self.cx + self.r * math.cos(a), self.cy + self.r * math.sin(a)))
        pts.append((self.ex, self.ey))
        return pts, (abs(self.sweep) * self.r / n if n else 0.0)


def arc_center_from_r(sx, sy, ex, ey, r, clockwise):
    """Marlin's R-form centre (logical units); None when not executable."""
    if not r or (sx == ex and sy == ey):
        return None
    dx, dy = ex - sx, ey - sy
    d = math.hypot(dx, dy)
    if d / 2 > abs(r):
        return None
    e = -1.0 if (clockwise ^ (r < 0)) else 1.0
    h = math.sqrt(max(r * r - (d / 2) * (d / 2), 0.0))
    mx, my = (sx + ex) / 2, (sy + ey) / 2
    # Marlin: sx = -dy/d, sy = dx/d
    return (mx + e * h * (-dy / d), my + e * h * (dx / d))


class Step(object):
    """What one executed command did."""
    __slots__ = ("cmd", "read", "moved_xy", "moved_z", "dfil", "is_move", "arc", "kind", "note")

    def __init__(self, cmd, rd):
        self.cmd = cmd
        self.read = rd
        self.moved_xy = False
        self.moved_z = False
        self.dfil = 0.0
        self.is_move = False     # G0-G3 carrying an X/Y/Z word with a value (and executable)
        self.arc = None
        self.kind = "other"
        self.note = None


class Printer(object):
    def __init__(self, g90_influences_e=False, firmware_read=False):
        self.g90e = g90_influences_e
        self.fw_read = firmware_read
        self.x = self.y = self.z = None          # physical mm, unknown until homed
        self.shift = {"x": 0.0, "y": 0.0, "z": 0.0}   # physical = logical*u + shift
        self.u = 1.0
        self.abs = True
        self.eabs = True
        self.e = 0.0             # logical extruder coordinate, in mm
        self.fil = 0.0           # cumulative physical filament position, mm
        self.hwm = 0.0           # high-water mark of fil
        self.fw = False          # firmware-retracted flag
        self.fw_doubled = 0      # G10 while already retracted
        self.fw_unmatched = 0    # G11 while not retracted
        self.feed = 0.0          # mm/min
        self.errors = 0          # commands Marlin would reject (not executable arcs...)
        self.exp_reads = 0       # numbers cut at an exponent marker (firmware reading)

    def clone(self):
        import copy
        c = copy.copy(self)
        c.shift = dict(self.shift)
        return c

    # ------------------------------------------------------------------ helpers
    @property
    def depth(self):
        return self.hwm - self.fil

    def snap(self):
        return (self.x, self.y, self.z, self.e, self.fil, self.hwm, self.fw, self.abs, self.eabs,
                self.u, self.feed, self.shift["x"], self.shift["y"], self.shift["z"])

    def trivial_frame(self):
        return self.u == 1.0 and self.abs and self.shift == {"x": 0.0, "y": 0.0, "z": 0.0}

    def logical(self, axis):
        v = getattr(self, axis)
        return None if v is None else (v - self.shift[axis]) / self.u

    def _target(self, axis, val):
        cur = getattr(self, axis)
        if val is None:
            return cur
        if self.abs:
            return val * self.u + self.shift[axis]
        if cur is None:
            return None
        return cur + val * self.u

    def _apply_e(self, rd, step):
        ev = rd.get("E")
        if ev is None:
            return
        new = ev * self.u if self.eabs else self.e + ev * self.u
        d = new - self.e
        self.e = new
        self.fil += d
        step.dfil = d
        if self.fil > self.hwm:
            self.hwm = self.fil

    # ------------------------------------------------------------------ execution
    def execute(self, cmd):  # noqa: C901  pylint: disable=too-many-branches,too-many-statements
        rd = gread.read(cmd, self.fw_read)
        step = Step(cmd, rd)
        if rd is None:
            step.kind = "noncode"
            return step
        if rd.exp_truncated:
            self.exp_reads += 1
        code = rd.code
        if rd.sub is not None:
            return step
        if code in ("G0", "G1"):
            step.kind = "linear"
            ox, oy, oz = self.x, self.y, self.z
            nx = self._target("x", rd.get("X"))
            ny = self._target("y", rd.get("Y"))
            nz = self._target("z", rd.get("Z"))
            step.is_move = rd.has_value("X") or rd.has_value("Y") or rd.has_value("Z")
            self.x, self.y, self.z = nx, ny, nz
            step.moved_xy = (nx != ox) or (ny != oy)
            step.moved_z = (nz != oz)
            self._apply_e(rd, step)
            fv = rd.get("F")
            if fv is not None:
                self.feed = fv * self.u
        elif code in ("G2", "G3"):
            step.kind = "arc"
            self._arc(rd, step, code == "G2")
        elif code == "G10":
            if rd.has("P") or rd.has("L"):
                return step
            step.kind = "fwretract"
            if self.fw:
                self.fw_doubled += 1
            self.fw = True
        elif code == "G11":
            step.kind = "fwrecover"
            if not self.fw:
                self.fw_unmatched += 1
            self.fw = False
        elif code == "G20":
            self.u = 25.4
        elif code == "G21":
            self.u = 1.0
        elif code == "G28":
            step.kind = "home"
            axes = [a for a in "xyz" if rd.has(a.upper())] or ["x", "y", "z"]
            for a in axes:
                if getattr(self, a) != 0.0:
                    if a == "z":
                        step.moved_z = True
                    else:
                        step.moved_xy = True
                setattr(self, a, 0.0)
                self.shift[a] = 0.0
        elif code == "G90":
            self.abs = True
            if self.g90e:
                self.eabs = True
        elif code == "G91":
            self.abs = False
            if self.g90e:
                self.eabs = False
        elif code == "G92":
            step.kind = "setpos"
            for a in "xyz":
                v = rd.get(a.upper())
                if v is not None and getattr(self, a) is not None:
                    self.shift[a] = getattr(self, a) - v * self.u
            ev = rd.get("E")
            if ev is not None:
                self.e = ev * self.u
        elif code == "M82":
            self.eabs = True
        elif code == "M83":
            self.eabs = False
        return step

    def _arc(self, rd, step, clockwise):
        if self.x is None or self.y is None:
            self.errors += 1
            return
        sx, sy = self.logical("x"), self.logical("y")
        xv, yv = rd.get("X"), rd.get("Y")
        if self.abs:
            ex = sx if xv is None else xv
            ey = sy if yv is None else yv
        else:
            ex = sx + (xv or 0.0)
            ey = sy + (yv or 0.0)
        rv = rd.get("R")
        if rv is not None:
            c = arc_center_from_r(sx, sy, ex, ey, rv, clockwise)
            if c is None:
                self.errors += 1
                step.note = "arc not executable"
                return
            ccx, ccy = c
        else:
            i, j = rd.get("I") or 0.0, rd.get("J") or 0.0
            if not (i or j):
                self.errors += 1
                step.note = "arc not executable"
                return
            ccx, ccy = sx + i, sy + j
        r = math.hypot(sx - ccx, sy - ccy)
        a0 = math.atan2(sy - ccy, sx - ccx)
        a1 = math.atan2(ey - ccy, ex - ccx)
        sweep = a1 - a0
        if clockwise:
            while sweep >= 0:
                sweep -= 2 * math.pi
            if sx == ex and sy == ey:
                sweep = -2 * math.pi
        else:
            while sweep <= 0:
                sweep += 2 * math.pi
            if sx == ex and sy == ey:
                sweep = 2 * math.pi
        u = self.u
        ox, oy, oz = self.x, self.y, self.z
        px = ex * u + self.shift["x"]
        py = ey * u + self.shift["y"]
        step.arc = ArcGeom(ccx * u + self.shift["x"], ccy * u + self.shift["y"], r * u, a0, sweep,
                           ox, oy, px, py, u)
        self.x, self.y = px, py
        self.z = self._target("z", rd.get("Z"))
        step.is_move = True
        step.moved_xy = (self.x != ox) or (self.y != oy) or abs(sweep) > 0
        step.moved_z = self.z != oz
        self._apply_e(rd, step)
        fv = rd.get("F")
        if fv is not None:
            self.feed = fv * u


def close(a, b, tol=1e-6):
    if a is None or b is None:
        return a is b
    return abs(a - b) <= tol + 1e-9 * max(abs(a), abs(b))


def selftest():  # pylint: disable=too-many-statements
    p = Printer()
    for c in ("G28", "G1 X10 Y20 Z0.2 F1200", "G1 X11 E1"):
        p.execute(c)
    assert (p.x, p.y, p.z, p.e, p.fil, p.feed) == (11.0, 20.0, 0.2, 1.0, 1.0, 1200.0), p.snap()
    p.execute("G1 E0 F1800")
    assert p.fil == 0.0 and p.depth == 1.0 and p.e == 0.0
    p.execute("G92 E5")
    assert p.e == 5.0 and p.fil == 0.0 and p.depth == 1.0
    p.execute("G1 E6")
    assert p.depth == 0.0 and p.fil == 1.0
    p.execute("G20")
    p.execute("G1 X1 Y1")
    assert close(p.x, 25.4) and close(p.y, 25.4)
    p.execute("G91")
    p.execute("G1 X-0.5 E0.1")
    assert close(p.x, 12.7) and close(p.e, 2.54), p.snap()   # E stays absolute: 0.1 in
    p.execute("G90")
    p.execute("G21")
    p.execute("G92 X0 Y0")
    assert close(p.logical("x"), 0) and close(p.x, 12.7)
    p.execute("G1 X1")
    assert close(p.x, 13.7)
    p.execute("G28 X")
    assert p.x == 0.0 and p.shift["x"] == 0.0 and p.shift["y"] != 0.0
    p.execute("G10")
    p.execute("G10 S1")
    assert p.fw and p.fw_doubled == 1
    p.execute("G10 P1 L2")
    assert p.fw_doubled == 1
    p.execute("G11")
    assert not p.fw
    q = Printer()
    q.execute("G28")
    q.execute("G1 X0 Y0 Z1")
    s = q.execute("G2 X10 Y0 I5 J0")
    assert s.arc is not None and close(s.arc.r, 5) and close(s.arc.sweep, -math.pi) and q.x == 10.0
    pts, _ = s.arc.points()
    assert max(py for _, py in pts) > 4.99 and min(py for _, py in pts) > -1e-9
    s = q.execute("G3 X0 Y0 R5")
    assert s.arc is not None and close(s.arc.r, 5) and close(abs(s.arc.sweep), math.pi)
    s = q.execute("G2 X5 Y5")
    assert s.arc is None and q.errors == 1 and q.x == 0.0
    s = q.execute("G2 I5 J0")
    assert close(abs(s.arc.sweep), 2 * math.pi)
    g = Printer(g90_influences_e=True)
    g.execute("G28")
    g.execute("G91")
    g.execute("G1 X1 E1")
    g.execute("G1 X1 E1")
    assert g.e == 2.0 and g.x == 2.0
    f = Printer(firmware_read=True)
    f.execute("G28")
    f.execute("G92 E1e-05")
    assert f.e == 1.0 and f.exp_reads == 1
