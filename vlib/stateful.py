"""Glue between RuleBasedStateMachine checks and the runner: every machine records its steps as
a JSON op list (the replay file), runs them through a Stepper, and reports to the Collector."""
from .runner import chash


class StepFailure(AssertionError):
    pass


class MachineMixin(object):
    """Mix into a RuleBasedStateMachine.  Subclass sets: MOD (property module), COL (collector)."""
    MOD = None
    COL = None

    def _init_case(self, header):
        self.case = dict(header)
        self.case["ops"] = []
        self.stepper = self.MOD.Stepper(self.case)
        self.failed = False

    def do(self, op):
        """Record and execute one op; raises on findings."""
        if self.COL.failing is not None:
            self.COL.calls_after_fail += 1
            if self.COL.shrink_exhausted():
                self.failed = True
                raise StepFailure("shrink budget exhausted")
        self.case["ops"].append(op)
        findings = self.stepper.step(op)
        if findings:
            self.failed = True
            self.COL.note(dict(self.case), findings, self.stepper.info())
            raise StepFailure("; ".join("%s: %s" % (f["tag"], f["msg"]) for f in findings[:3]))

    def teardown(self):
        if not getattr(self, "failed", False) and hasattr(self, "stepper"):
            self.COL.note(dict(self.case), [], self.stepper.info())


def replay(mod, case):
    """run_case for stepper-based modules."""
    st = mod.Stepper(case)
    findings = []
    for op in case["ops"]:
        findings = st.step(op)
        if findings:
            break
    return findings, st.info()
