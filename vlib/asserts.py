"""Assertions over a core.Trace for the filter properties (C01, C03, C04, C05, C07, C14).
Each function returns a list of findings {"tag","msg","at"}; none of them looks at the
plugin's internal state."""
from . import geom, gread
from .core import X, Y, Z, E, FIL, HWM, FW, ABS, U
from .printer import close

TOL = 1e-6


def tol(it):
    """1e-6 mm plus 9 ulp of the largest coordinate magnitude seen so far (only matters for the numeric stress programs)."""
    return TOL + 2e-15 * getattr(it, "scale", 0.0)


def F(tag, it, msg):
    return {"tag": tag, "at": it.idx, "msg": "item %d %r: %s" % (it.idx, it.item[1:], msg)}


def exceptions(tr):
    return [F("exception", it, it.exception) for it in tr.items if it.exception]


def in_window(it):
    """The item is processed while an episode is open (opening move included, closing excluded)."""
    return it.opening or (it.open_before and not it.closing)


def last_snap(it):
    return it.f_steps[-1][1] if it.f_steps else it.f_before


def moved(a, b):
    return a[X] != b[X] or a[Y] != b[Y] or a[Z] != b[Z]


# ----------------------------------------------------------------------------------- C01
def c01(tr):
    out = exceptions(tr)
    for it in tr.items:
        prev = it.f_before
        win = in_window(it)
        for cmd, (step, snap) in zip(it.out, it.f_steps):
            if win:
                if moved(prev, snap):
                    out.append(F("c01_motion_in_episode", it, "forwarded %r moves the tool %r -> %r while an episode is open" % (cmd, prev[:3], snap[:3])))
                if snap[FIL] > prev[FIL] + 1e-9:
                    out.append(F("c01_extrusion_in_episode", it, "forwarded %r advances filament by %r while an episode is open" % (cmd, snap[FIL] - prev[FIL])))
                if step is not None and step.kind == "fwrecover":
                    out.append(F("c01_fwrecover_in_episode", it, "firmware recover %r forwarded while an episode is open" % (cmd,)))
            # (commands sent by a disabling @-command run with exclusion disabled: not subject to this clause)
            if it.kind == "g" and it.enabled_after and (prev[X] != snap[X] or prev[Y] != snap[Y]) and snap[X] is not None:
                if step is not None and step.kind != "home":
                    if geom.classify(it.regions, snap[X], snap[Y], it.margin) == geom.IN:
                        out.append(F("c01_move_into_region", it, "forwarded %r moves the tool to (%r,%r) inside a region" % (cmd, snap[X], snap[Y])))
            prev = snap
    return out


# ----------------------------------------------------------------------------------- C03
def c03(tr):
    out = exceptions(tr)
    for it in tr.items:
        resync = False
        if it.kind == "g" and it.is_move and (it.cls == geom.OUT or not it.enabled_before):
            resync = True
        if it.kind == "at" and it.closing:
            resync = True
        if not resync:
            continue
        pf = last_snap(it)
        pu = it.u_after
        for ax, name in ((X, "X"), (Y, "Y"), (Z, "Z")):
            if not close(pf[ax], pu[ax], tol(it)):
                out.append(F("c03_position", it, "after leaving/being outside every region the printer %s is %r, the file is at %r" % (name, pf[ax], pu[ax])))
        if pf[ABS] != pu[ABS]:
            out.append(F("c03_mode", it, "printer positioning mode absolute=%r, file selected absolute=%r" % (pf[ABS], pu[ABS])))
        if pf[U] != pu[U]:
            out.append(F("c03_units", it, "printer unit factor %r, file selected %r" % (pf[U], pu[U])))
        if it.closing and it.f_before[Z] is not None:
            zhi = max(it.f_before[Z], pu[Z])
            prev = it.f_before
            for cmd, (_step, snap) in zip(it.out, it.f_steps):
                if prev[X] != snap[X] or prev[Y] != snap[Y]:
                    if not close(prev[Z], zhi, tol(it)) or not close(snap[Z], zhi, tol(it)):
                        out.append(F("c03_z_order", it, "re-positioning %r travels in XY at Z %r->%r, expected the higher of previous Z %r and target Z %r" % (cmd, prev[Z], snap[Z], it.f_before[Z], pu[Z])))
                prev = snap
    return out


# ----------------------------------------------------------------------------------- C04
def c04(tr):
    out = exceptions(tr)
    for it in tr.items:
        if it.kind == "g" and not it.open_before and not it.opening and it.u_step is not None \
                and it.u_step.read is not None and it.u_step.read.has_value("E") \
                and it.u_step.read.code in ("G0", "G1", "G2", "G3") and it.cmd in it.out:
            k = it.out.index(it.cmd)
            before = it.f_steps[k - 1][1] if k > 0 else it.f_before
            after = it.f_steps[k][1]
            if not close(before[E], it.u_before[E], tol(it)):
                out.append(F("c04_e_coordinate", it, "printer E is %r before the forwarded command, the file assumes %r" % (before[E], it.u_before[E])))
            pushed = after[FIL] - before[FIL]
            if not close(pushed, it.u_step.dfil, tol(it)):
                out.append(F("c04_amount", it, "forwarded command pushes %r mm of filament, the file specifies %r" % (pushed, it.u_step.dfil)))
        if it.kind == "g" and not it.open_before and not it.opening:
            # deposited plastic (advance of the filament high-water mark) outside an episode equals the file's:
            # an owed recovery may precede the command, but nothing may be extruded on top of it
            dep_f = last_snap(it)[HWM] - it.f_before[HWM]
            dep_u = it.u_after[HWM] - it.u_before[HWM]
            if not close(dep_f, dep_u, tol(it)):
                out.append(F("c04_deposit", it, "forwarded commands deposit %r mm of filament outside a region, the file deposits %r" % (dep_f, dep_u)))
        if not it.open_after and it.kind in ("g", "at"):
            pf = last_snap(it)
            if not close(pf[E], it.u_after[E], tol(it)):
                out.append(F("c04_e_outside", it, "outside every region the printer E is %r, the file assumes %r" % (pf[E], it.u_after[E])))
        if in_window(it):
            prev = it.f_before
            for cmd, (_s, snap) in zip(it.out, it.f_steps):
                if snap[FIL] > prev[FIL] + 1e-9:
                    out.append(F("c04_suppressed_pushes", it, "%r pushes filament inside an episode" % (cmd,)))
                prev = snap
    return out


# ----------------------------------------------------------------------------------- C05
def c05(tr, firmware):
    out = exceptions(tr)
    max_du = 0.0
    last_g10 = None
    for it in tr.items:
        pu, pf = it.u_after, last_snap(it)
        du, df = pu[HWM] - pu[FIL], pf[HWM] - pf[FIL]
        max_du = max(max_du, du, it.u_before[HWM] - it.u_before[FIL])
        if it.kind == "g" and it.u_step is not None and it.u_step.kind == "fwretract":
            last_g10 = it.u_step.read
        if df > max_du + TOL:
            out.append(F("c05_deeper", it, "filament retracted %r mm, deepest retraction requested by the file so far is %r" % (df, max_du)))
        if it.kind == "g" and not it.open_before and not it.opening:
            # "recovered exactly once": outside an episode the forwarded list advances the filament high-water
            # mark exactly as the file's command does (a second recovery would show up as extra deposit)
            dep_f = pf[HWM] - it.f_before[HWM]
            dep_u = pu[HWM] - it.u_before[HWM]
            if dep_f > dep_u + TOL:
                out.append(F("c05_recovered_twice", it, "forwarded commands advance the filament %r mm beyond its previous maximum, the file's command %r" % (dep_f, dep_u)))
        if df < du - TOL:
            out.append(F("c05_shallower", it, "filament retracted %r mm, the file currently assumes %r" % (df, du)))
        # (a move "extrudes" if it pushes filament - not if the same E value, written in other units, differs in the last bit)
        printing = (it.kind == "g" and it.u_step is not None and it.u_step.is_move and it.u_step.dfil > 1e-9
                    and it.cmd in it.out and not in_window(it) and not it.closing)
        if printing:
            k = it.out.index(it.cmd)
            before = it.f_steps[k - 1][1] if k > 0 else it.f_before
            dfb = before[HWM] - before[FIL]
            dub = it.u_before[HWM] - it.u_before[FIL]
            if not close(dfb, dub, TOL):
                out.append(F("c05_not_recovered", it, "printing move forwarded with physical retraction depth %r, the file's is %r" % (dfb, dub)))
            if before[FW] != it.u_before[FW]:
                out.append(F("c05_fw_state", it, "printing move forwarded with firmware-retracted=%r, the file's state is %r" % (before[FW], it.u_before[FW])))
        if firmware:
            if pf[FW] and not pu[FW] and not (it.open_after or in_window(it)) and printing:
                out.append(F("c05_fw_state", it, "firmware retraction still active at a printing move"))
            for cmd, (step, _snap) in zip(it.out, it.f_steps):
                if step is not None and step.kind in ("fwretract", "fwrecover") and cmd != it.cmd:
                    # synthesised firmware command: parameters of the G10 it derives from
                    want = "" if last_g10 is None else params_text(last_g10.raw)
                    if params_text(cmd) != want:
                        out.append(F("c05_fw_params", it, "synthesised %r does not carry the parameters %r of the file's G10" % (cmd, want)))
    if firmware and tr.pf.fw_doubled:
        out.append({"tag": "c05_fw_doubled", "at": None, "msg": "%d firmware retract(s) forwarded while already retracted" % tr.pf.fw_doubled})
    return out


def params_text(cmd):
    """Parameter words of a command, normalised (independent reader; 'G10S1' and 'G10 S1' are the same)."""
    rd = gread.read(cmd)
    if rd is None:
        return cmd
    return " ".join("%s%s" % (l, "" if v is None else repr(v)) for l, v in rd.words)


# ----------------------------------------------------------------------------------- classes
def classes(tr, case):
    cl = set()
    suppressed_in_closed = False
    have_suppressed = False
    pos_changed_in_episode = False
    for it in tr.items:
        if it.opening:
            cl.add("episode")
            have_suppressed = False
            if it.u_step is not None and it.u_step.arc is not None:
                cl.add("arc_opens")
            if it.u_before[Z] != it.u_after[Z]:
                cl.add("z_changes_on_entering_move")
            if it.u_step is not None and it.u_step.dfil:
                cl.add("e_on_entering_move")
            if it.cls == geom.IN and it.margin == 0 and any(geom.signed_dist(r, it.u_after[X], it.u_after[Y]) == 0 for r in it.regions):
                cl.add("exact_border_entry")
        if in_window(it) and it.kind == "g":
            if it.cmd not in it.out:
                have_suppressed = True
            if moved(it.u_before, it.u_after):
                pos_changed_in_episode = True
            if it.u_before[U] != it.u_after[U]:
                cl.add("unit_switch_in_episode")
            if it.u_before[ABS] != it.u_after[ABS]:
                cl.add("mode_switch_in_episode")
            if it.u_step is not None and it.u_step.kind == "setpos":
                cl.add("g92e_in_episode")
            if it.u_step is not None and it.u_step.dfil < 0:
                cl.add("retract_in_episode")
            if it.u_step is not None and it.u_step.dfil > 0 and not it.u_step.is_move:
                cl.add("recover_in_episode")
            if it.u_step is not None and it.u_step.kind in ("fwretract", "fwrecover"):
                cl.add("fw_cycle_in_episode")
        if it.closing:
            cl.add("episode_closed")
            if have_suppressed:
                suppressed_in_closed = True
            if it.kind == "at":
                cl.add("closed_by_disable")
            else:
                if it.u_step.arc is not None:
                    cl.add("arc_closes")
                if not it.u_after[ABS]:
                    cl.add("relative_at_exit")
                if it.u_after[U] != 1.0:
                    cl.add("inch_at_exit")
        if it.kind == "reg":
            cl.add("region_added_mid_program")
        if it.kind == "g" and it.is_move and it.u_step.arc is not None and it.enabled_before:
            cl.add("arc_decision")
        if it.kind == "at":
            cl.add("at_command")
    if pos_changed_in_episode and "episode_closed" in cl:
        cl.add("position_changed_while_suppressed")
    cfg = case.get("config", {})
    for k in ("g90e", "debug", "enter", "exit", "ext", "at"):
        if cfg.get(k):
            cl.add("cfg_" + k)
    if case.get("via") == "plugin":
        cl.add("via_plugin_hooks")
    if tr.truncated:
        cl.add("truncated_at_border")
    return cl, suppressed_in_closed
