"""Secondary engine: coverage-guided fuzzing (atheris on libFuzzer) of a property's byte-level
target.  libFuzzer ends the process, so each campaign runs in a child process:

    python -m vlib.fuzz <ID> <runs> <seed> <workdir>

The property module provides fuzz_decode(bytes) -> case | None; the oracle is run_case, inside
the target.  A violation raises, libFuzzer stores the input as crash-*, the parent decodes it."""
import glob
import json
import os
import re
import shutil
import subprocess
import sys
import time

from . import env


def campaign(prop, runs, seed, corpus=(), timeout=3600):
    """Run one campaign; returns dict(available, execs, nontrivial, failing_case, note)."""
    if env.try_atheris() is None:
        return {"available": False, "execs": 0, "nontrivial": 0, "failing_case": None, "note": "atheris not importable"}
    work = os.path.join(env.VERIF, "out", "fuzz-%s-%d-%d" % (prop, seed, os.getpid()))
    shutil.rmtree(work, ignore_errors=True)
    os.makedirs(os.path.join(work, "corpus"))
    for i, data in enumerate(corpus):
        with open(os.path.join(work, "corpus", "seed%d" % i), "wb") as fh:
            fh.write(data)
    envv = dict(os.environ)
    envv["PYTHONPATH"] = os.pathsep.join([env.VERIF, env.DEPS, envv.get("PYTHONPATH", "")])
    t0 = time.time()
    try:
        p = subprocess.run([sys.executable, "-W", "ignore", "-m", "vlib.fuzz", prop, str(runs), str(seed), work],
                           cwd=env.VERIF, env=envv, capture_output=True, text=True, timeout=timeout)
        err = p.stderr
    except subprocess.TimeoutExpired as exc:
        err = (exc.stderr or b"").decode("utf-8", "replace") if isinstance(exc.stderr, bytes) else (exc.stderr or "")
    m = re.findall(r"Done (\d+) runs", err)
    execs = int(m[-1]) if m else 0
    if not execs:
        m = re.findall(r"^#(\d+)\s", err, re.M)
        execs = int(m[-1]) if m else 0
    stats = {}
    try:
        with open(os.path.join(work, "stats.json")) as fh:
            stats = json.load(fh)
    except Exception:  # pylint: disable=broad-except
        pass
    failing = None
    for path in sorted(glob.glob(os.path.join(work, "crash-*"))):
        with open(path, "rb") as fh:
            data = fh.read()
        import importlib
        mod = importlib.import_module("props." + prop.lower())
        decode = mod.fuzz_decode if hasattr(mod, "fuzz_decode") else hyp_decoder(mod)
        case = decode(data)
        if case is not None:
            findings, _ = mod.run_case(case)
            if findings:
                failing = (case, findings)
                break
    shutil.rmtree(work, ignore_errors=True)
    return {"available": True, "execs": execs, "nontrivial": stats.get("nontrivial", 0), "failing_case": failing,
            "wall": time.time() - t0, "note": "" if execs else err[-400:]}


def hyp_decoder(mod):
    """bytes -> case through the module's own Hypothesis strategy (fuzz_one_input): every @given-based property gets a
    structured, coverage-guided byte-level target for free."""
    import hypothesis
    from hypothesis import given, settings, HealthCheck
    box = {}

    @settings(database=None, deadline=None, suppress_health_check=list(HealthCheck))
    @given(mod.strategy("quick"))
    def probe(case):
        box["case"] = case

    def decode(data):
        box.pop("case", None)
        try:
            probe.hypothesis.fuzz_one_input(data)
        except Exception:  # pylint: disable=broad-except
            return None
        return box.get("case")

    del hypothesis
    return decode


def child(prop, runs, seed, work):
    import importlib
    import atheris
    with atheris.instrument_imports(include=["octoprint_excluderegion"]):
        mod = importlib.import_module("props." + prop.lower())
    seen = set()
    counter = {"n": 0, "nontrivial": 0}
    from .runner import chash
    decode = mod.fuzz_decode if hasattr(mod, "fuzz_decode") else hyp_decoder(mod)

    def target(data):
        case = decode(data)
        if case is None:
            return
        findings, info = mod.run_case(case)
        counter["n"] += 1
        if info.get("nontrivial"):
            h = chash(case)
            if h not in seen:
                seen.add(h)
                counter["nontrivial"] = len(seen)
        counter["decoded"] = counter["n"]
        if counter["n"] % 200 == 0 or findings:
            with open(os.path.join(work, "stats.json"), "w") as fh:
                json.dump(counter, fh)
        if findings:
            raise AssertionError("; ".join(f["tag"] for f in findings))

    argv = [sys.argv[0], "-runs=%d" % runs, "-seed=%d" % (seed or 1), "-artifact_prefix=%s/" % work, "-max_len=%d" % (512 if hasattr(mod, "fuzz_decode") else 8192),
            "-print_final_stats=1", "-len_control=0", os.path.join(work, "corpus")]
    atheris.Setup(argv, target)
    atheris.Fuzz()


if __name__ == "__main__":
    child(sys.argv[1], int(sys.argv[2]), int(sys.argv[3]), sys.argv[4])
