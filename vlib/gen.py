"""Hypothesis strategies shared by the filter properties: regions, configurations, abstract
programs and the renderer that turns them into concrete command lists.

Sound first: only the dialect the README documents and the property quantifiers admit.
Everything random is drawn by Hypothesis; rendering is deterministic, so shrinking and replay
work on the abstract level and the resulting case is plain JSON."""
import math
import re

from hypothesis import strategies as st

from . import geom
from .printer import Printer
from .core import classify_arc, AtModel

# ----------------------------------------------------------------------------- profiles
BASE = dict(
    arcs=2, rel=True, inch=True, g92e=True, at=True, reg_events=True, home_mid=True,
    retract="matched",      # matched | wild | none
    ext=True, scripts=True, exact=True, g90e=True, maxlen=40, minlen=6,
    at_custom=False, streaming=False, stress=False, rebase=False, arc_rel=True,
)


def profile(**kw):
    p = dict(BASE)
    p.update(kw)
    return p


def fmt(v, nd=5):
    s = ("%.*f" % (nd, v)).rstrip("0").rstrip(".")
    if s in ("-0", "", "-"):
        s = "0"
    return s


def weighted(pairs):
    """one_of with weights (st.one_of silently drops repeated branches)."""
    idx = [i for i, (w, _) in enumerate(pairs) for _ in range(w)]
    strats = [sx for _, sx in pairs]
    return st.sampled_from(idx).flatmap(lambda i: strats[i])


# ----------------------------------------------------------------------------- regions
@st.composite
def region(draw, idx, exact=False):
    if draw(st.integers(0, 2)) < 2:
        a, b = draw(st.integers(3, 45)), draw(st.integers(3, 45))
        w = draw(st.sampled_from([0, 1, 2, 4, 6, 8, 10, 15, 20]))
        h = draw(st.sampled_from([0, 1, 2, 4, 6, 8, 10, 15, 20]))
        off = 0.0 if exact else 0.25
        x1, y1, x2, y2 = a + off, b + off, a + w + off, b + h + off
        o = draw(st.integers(0, 3))
        if o & 1:
            x1, x2 = x2, x1
        if o & 2:
            y1, y2 = y2, y1
        m = draw(st.sampled_from([0, 0, 0, 0, 1, 2, 3]))        # mirrored into a negative quadrant (never over the home corner)
        if m & 1:
            x1, x2 = -x1, -x2
        if m & 2:
            y1, y2 = -y1, -y2
        return {"type": "rect", "x1": x1, "y1": y1, "x2": x2, "y2": y2, "id": "r%d" % idx}
    a, b = draw(st.integers(8, 50)), draw(st.integers(8, 50))
    k = draw(st.sampled_from([0, 1, 2, 3, 4, 5, 7]))
    sx, sy = draw(st.sampled_from([(1, 1), (1, 1), (1, 1), (-1, 1), (1, -1), (-1, -1)]))
    if exact:
        return {"type": "circ", "cx": float(a) * sx, "cy": float(b) * sy, "r": float(k), "id": "r%d" % idx}
    return {"type": "circ", "cx": (a + 0.1) * sx, "cy": (b + 0.3) * sy, "r": k + 0.2, "id": "r%d" % idx}


# ----------------------------------------------------------------------------- abstract ops
TARGET_KINDS = ["grid", "in", "in", "edge_in", "edge_out", "same", "border", "zero", "micro_in", "micro_out"]


@st.composite
def op_move(draw):
    return ("mv",
            draw(st.sampled_from(TARGET_KINDS)),
            draw(st.integers(0, 7)),      # region selector
            draw(st.integers(0, 120)),    # grid i / position selector
            draw(st.integers(0, 120)),    # grid j / position selector
            draw(st.sampled_from([3, 3, 3, 1, 2, 0])),   # axes mask
            draw(st.sampled_from([None, None, None, None, 0.2, 0.4, 0.6, 1.0, 5.0, 0.0])),   # z
            draw(st.sampled_from([0, 0, 0, 1, 2, 4, 8, -1, 99])),   # extrusion (multiples of 0.127 mm; -1: slic3r; 99: E word repeating the current value)
            draw(st.sampled_from([None, None, 600, 1200, 1800, 3000])),   # feed
            draw(st.sampled_from(["G1", "G1", "G0"])))


@st.composite
def op_arc(draw):
    return ("arc",
            draw(st.sampled_from([0.5, 1.0, 2.0, 3.0, 5.0, 8.0, 12.0])),   # radius mm
            draw(st.integers(0, 15)),     # start angle index (22.5 deg)
            draw(st.sampled_from([30, 45, 90, 135, 180, 225, 270, 330, 360])),
            draw(st.booleans()),          # clockwise
            draw(st.sampled_from(["IJ", "IJ", "IJ", "R"])),
            draw(st.sampled_from([None, None, 0.4, 1.0])),   # z
            draw(st.sampled_from([0, 0, 2])),    # extrusion
            draw(st.integers(0, 7)))      # optional: aim the centre at region k (0 = free)


EXT_POOL = [
    "M106 S255", "M106 S0", "M107", "M117 Layer 3", "M117 printing X1 Y2", "M204 S500", "M204 P800 T1500",
    "M205 X8 Y8", "M205 J0.02", "M73 P25 R40", "M73 P50", "G4 P100", "G4 S1", "M900 K0.2", "T0",
    "M104 S210", "M140 S60", "M220 S100", "M221 S95", "M400", "G29", "M114", "M82.5",
    "G10 P1 L2 X0.5", "G10 L2 P1 X0 Y0",      # tool / workspace offsets: not retractions (P or L present), passed through
    "M204 S.5", "M205 X-.25 Y5.", "M73 P+7 R007", "M900 K.08", "M205X8E5", "M204P500T1000",
    "M117 Layer (3/20)", "M118 (note) done", "M204", "M73", "M106",          # text with parentheses; configured codes without any parameter
    "M73 P100 R0", "M205 S0 T0", "M73 P0 R90", "M204 S0",                    # parameters whose value is 0 (the slicer's last M73 says R0)
]


def op_misc(p):
    opts = [(p.get("cyc_w", 4), st.just(("cyc",)))] if p["retract"] != "none" else []
    if p["retract"] == "wild":
        opts += [(3, st.tuples(st.just("wild"), st.sampled_from(["ret", "rec", "g10", "g11", "g10s", "g11s"]),
                               st.sampled_from([1, 2, 4, 8, 20])))]
    if p["g92e"]:
        opts.append((1, st.tuples(st.just("sete"), st.sampled_from([0.0, 0.0, 1.27, 2.54, 10.16, 9245.6, 21590.0]))))     # (long prints: metres of filament)
    if p["inch"]:
        opts.append((1, st.just(("units",))))
    if p["rel"]:
        opts += [(2, st.just(("mode",)))]
    if p["home_mid"]:
        opts.append((1, st.tuples(st.just("home"), st.sampled_from(["", " X", " Y", " Z", " X Y", " X Y Z", " X0 Y0", " Z0", " X0", " W", " W X"]))))
    if p["ext"]:
        opts += [(p.get("ext_w", 2), st.tuples(st.just("ext"), st.integers(0, len(EXT_POOL) - 1)))]
    if p["at"]:
        opts += [(p.get("at_w", 2), st.tuples(st.just("at"),
                           st.sampled_from(["off", "on", "disable", "enable", "off now", "on again", "off", "on",
                                            "", "", "", "now", "offline", "foo", " off", "disabled", "OFF", "lights off", "not on", "turn off now"]),
                           st.sampled_from(["ExcludeRegion"] * 5 + ["excluderegion", "Other", "Other", "Exclude"]),
                           st.sampled_from([False, False, True, True, "paused"]) if p["streaming"] else st.sampled_from([False] * 9 + ["paused"])))]
    if p.get("set_at"):
        entry = st.fixed_dictionaries({
            "command": st.sampled_from(["ExcludeRegion", "ExcludeRegion", "Other", "Exclude"]),
            "parameterPattern": st.sampled_from([None, "^\\s*(enable|on)(\\s|$)", "^\\s*(disable|off)(\\s|$)", "^off", "on$"]),
            "action": st.sampled_from(["enable_exclusion", "disable_exclusion"])})
        opts.append((p["set_at"], st.tuples(st.just("set_at"), st.lists(entry, max_size=3))))
    if p["reg_events"]:
        opts.append((1, st.tuples(st.just("reg"), st.sampled_from(["new", "here", "here"]), st.integers(0, 10 ** 6))))
        if p.get("reg_delete", True):
            opts.append((1, st.tuples(st.just("unreg"), st.integers(0, 7))))
        if p.get("reg_replace", True):
            opts.append((1, st.tuples(st.just("rereg"), st.integers(0, 7), st.sampled_from(["grow", "shrink", "shift", "shift", "retype"]),
                                      st.integers(1, 3))))
    if p["rebase"] or p.get("rebase_w"):
        opts.append((1, st.tuples(st.just("rebase"), st.integers(0, 20), st.integers(0, 20), st.sampled_from([None, 0, 1]))))
    opts.append((1, st.tuples(st.just("feed"), st.sampled_from([600, 1200, 2400]))))
    if p.get("posupd", True):
        # OctoPrint publishes the printer's M114 answer (on a pause, on request) - the plugin has no business with it
        opts.append((1, st.tuples(st.just("posupd"), st.booleans())))
    return weighted(opts)


_CACHE = {}


def _key(p):
    return tuple(sorted((k, str(v)) for k, v in p.items()))


def one_op(p, inner=False):
    key = ("op", inner) + _key(p)
    if key not in _CACHE:
        mv, misc = op_move(), op_misc(p)
        parts = [(6, mv), (p.get("misc_w", 5), misc)]
        if p["arcs"]:
            parts += [(p["arcs"], op_arc())]
        if p["arcs"] and p["rel"] and p.get("relarc", 2):
            # an arc under G91 (optionally followed by a relative move), then back to G90
            parts += [(p.get("relarc", 2), st.tuples(st.just("relarc"), op_arc(), st.one_of(st.none(), op_move())))]
        if p.get("cvisit") and not inner and p["retract"] != "none":
            # retract / recover cycles deliberately cut by episode boundaries (R toggle cycle, I move in, O move out, P print)
            parts += [(p["cvisit"], st.tuples(st.just("cvisit"), st.sampled_from(CUT_PATTERNS), st.integers(0, 7),
                                              st.integers(0, 120), st.integers(0, 120)))]
        if p.get("offon") and not inner:
            # exclusion switched off, a few ops, switched on again, then a single-axis move
            parts += [(p["offon"], st.tuples(st.just("offon"), st.lists(one_op(p, True), min_size=1, max_size=4),
                                             st.integers(0, 120), st.sampled_from([1, 2]), st.sampled_from(["off", "disable"])))]
        if p.get("stress"):
            parts += [(6, st.tuples(st.just("stress"),
                                    st.sampled_from(["roundoff", "roundoff", "tiny_e", "tiny_e", "huge_xy", "huger_xy", "tiny_xy", "inch_feed",
                                                     "tiny_merge", "huge_merge", "tiny_z", "leave_far", "tiny_base", "tiny_base", "spelled_merge",
                                                     "twin_merge"]),
                                    st.integers(1, 999), st.integers(0, 8)))]
        if p["home_mid"] and not inner and p.get("visits", True):
            # the height changes, the printer is homed (no Z word afterwards), and the very next move enters a region
            parts += [(1, st.tuples(st.just("homevisit"), st.sampled_from([1.0, 5.0, 0.6]), st.sampled_from(["", " X Y", " Z", " X"]), op_visit(p)))]
        if p.get("again", 2):
            # the previous move command once more, character for character (a second relative step; a null move in absolute mode)
            parts += [(p.get("again", 2), st.just(("again",)))]
        if p["rel"] and p.get("zres", 1):
            # relative Z steps that sum to zero only up to float round-off (0.1 + 0.2 - 0.3), from Z0 or from the current height
            parts += [(p.get("zres", 1), st.tuples(st.just("zres"), st.booleans()))]
        if not inner and p.get("visits", True):
            parts += [(4, op_visit(p))]
        _CACHE[key] = weighted(parts)
    return _CACHE[key]


CUT_PATTERNS = ["RIROP", "IRORP", "RIRRORP", "IRROP", "RIORP", "RIRORRP", "RIROIOP", "RIROIROP", "IRORIP", "RIRDP", "IRDRP", "RIRORP",
                "RIROSRRP", "RIRSORRP", "RISROP", "RIROIRSOP", "RIOIROP", "RIRTOP", "RTIROP",
                "RAIROP", "RAIRDP", "ARIROP",
                "ZRIZRZRORP", "ZRIZRZRDRP", "ZIZOP", "ZRIZROP"]      # Z: G92 E0 - the E at the exit may coincide with the E at the entry


def op_visit(p):
    """A deliberate episode: move into region k, a few inner ops, then leave (or not)."""
    return st.tuples(st.just("visit"), st.integers(0, 7), st.integers(0, 120), st.integers(0, 120),
                     st.sampled_from([None, None, 0.4, 1.0, 5.0]),
                     st.sampled_from([0, 0, 2]),
                     st.lists(one_op(p, True), max_size=5),
                     st.sampled_from(["out", "out", "out", "grid", "disable", "stay", "back"]))


def ops(p):
    key = ("ops",) + _key(p)
    if key not in _CACHE:
        _CACHE[key] = st.lists(one_op(p), min_size=p["minlen"], max_size=p["maxlen"])
    return _CACHE[key]


# ----------------------------------------------------------------------------- configuration
SCRIPT_POOL = ["M117 Excluding", "M117 Printing again", "M106 S0", "M106 S255", "M400", "M300 S440 P50",
               "@enterExcludedRegion", "M118 region"]
EXT_MODES = ["exclude", "first", "last", "merge"]


@st.composite
def config(draw, p):
    cfg = {"g90e": draw(st.booleans()) if p["g90e"] else False}
    if p["scripts"] and draw(st.integers(0, 2)) == 0:
        cfg["enter"] = draw(st.lists(st.sampled_from(SCRIPT_POOL), min_size=1, max_size=2))
    if p["scripts"] and draw(st.integers(0, 2)) == 0:
        cfg["exit"] = draw(st.lists(st.sampled_from(SCRIPT_POOL), min_size=1, max_size=2))
    if p.get("park") and draw(st.integers(0, 3)) == 0:
        # an enter script that parks the nozzle at the home corner while the region is skipped (absolute mm files only matter
        # to where it parks; the exit must bring the tool to the file's position wherever it was parked)
        cfg["enter"] = (cfg.get("enter") or []) + ["G0 X0 Y0"]
    if p["ext"] and draw(st.integers(0, 3)) == 0:
        codes = draw(st.lists(st.sampled_from(["G4", "M204", "M205", "M117", "M73", "M106", "M900", "M104"]),
                              unique=True, max_size=5))
        ext = {}
        for c in codes:
            modes = EXT_MODES if c != "M117" else ["exclude", "first", "last"]
            ext[c] = draw(st.sampled_from(modes))
        cfg["ext"] = ext
    if draw(st.integers(0, 5)) == 0:
        cfg["debug"] = True
    if p["at_custom"] and draw(st.booleans()):
        n = draw(st.integers(0, 4))
        table = []
        for _ in range(n):
            table.append({
                "command": draw(st.sampled_from(["ExcludeRegion", "ExcludeRegion", "Other", "excluderegion"])),
                "parameterPattern": draw(st.sampled_from([None, "^\\s*(enable|on)(\\s|$)", "^\\s*(disable|off)(\\s|$)",
                                                         "^off", "on", "^$", "^\\s*o(n|ff)", "off(\\s|$)", "on$",
                                                         "", "^\\s*$", ".*", "^\\s*(now)?\\s*$"])),
                "action": draw(st.sampled_from(["enable_exclusion", "disable_exclusion"])),
            })
        if draw(st.integers(0, 3)) == 0:
            # entries of one command interleaved with another command's (a hand-edited list; order within a command matters)
            table = [{"command": "ExcludeRegion", "parameterPattern": "^\\s*(disable|off)(\\s|$)", "action": "disable_exclusion"},
                     {"command": "Other", "parameterPattern": None, "action": draw(st.sampled_from(["enable_exclusion", "disable_exclusion"]))},
                     {"command": "ExcludeRegion", "parameterPattern": "^\\s*(enable|on)(\\s|$)", "action": "enable_exclusion"}] + table[:1]
        cfg["at"] = table
    return cfg


# ----------------------------------------------------------------------------- renderer
class Renderer(object):  # pylint: disable=too-many-instance-attributes
    """Turns abstract ops into command text, tracking the *intended* state with a reference
    printer fed the rendered text (generator bookkeeping, not an oracle)."""

    def __init__(self, cfg, regions, p, delta_mm, fw, exact):
        self.cfg, self.p = cfg, p
        self.regions = [dict(r) for r in regions]
        self.pr = Printer(bool(cfg.get("g90e")))
        self.atm = AtModel(cfg.get("at"))
        self.prog = []
        self.delta = delta_mm
        self.fw = fw
        self.exact = exact
        self.retracted = False
        self.enabled = True
        self.open = False           # conservative: EDGE counts as open
        self.rewrites = 0
        self.excluded_known = 0     # ops not rendered because of an open known finding
        self.nreg = len(regions)
        self.stats = {}
        self.visited = []           # the first destinations of the program (physical)

    # -- emit helpers
    def g(self, cmd, precheck=False):
        """Emit a command.  With precheck, a move whose decision would fall into the border band of
        the episode oracle (EDGE) is not emitted at all (construction instead of truncation)."""
        if precheck and self.enabled and self.regions:
            probe = self.pr.clone()
            st_ = probe.execute(cmd)
            if st_.is_move and self._classify(st_, probe) == geom.EDGE:
                self.rewrites += 1
                return None
        self.prog.append(["g", cmd])
        step = self.pr.execute(cmd)
        if step.is_move and len(self.visited) < 80 and self.pr.x is not None:
            self.visited.append((self.pr.x, self.pr.y))
        if step.is_move and self.enabled:
            self.open = self._classify(step, self.pr) != geom.OUT
        return step

    def _classify(self, step, pr):
        if step.arc is not None:
            return classify_arc(self.regions, step.arc, 1e-6)
        margin = 0.0 if (self.exact and pr.trivial_frame()) else 1e-6
        return geom.classify(self.regions, pr.x, pr.y, margin)

    def start(self, inch=False, z0=False):
        self.g("G28")
        self.g("G1 X1 Y1 F3000" if z0 else "G1 X1 Y1 Z0.2 F3000")
        if inch:
            self.g("G20")

    def lx(self, axis, phys):
        """Logical word value for a physical target on an axis in the current frame."""
        pr = self.pr
        cur = getattr(pr, axis)
        if pr.abs:
            return (phys - pr.shift[axis]) / pr.u
        return (phys - cur) / pr.u

    def e_word(self, new_e_mm):
        nd = 15 if self.p.get("stress") else 5      # stress programs carry 1e-10-sized E components: keep cycles matched
        if not self.pr.eabs:
            return " E" + fmt((new_e_mm - self.pr.e) / self.pr.u, nd)
        return " E" + fmt(new_e_mm / self.pr.u, nd)

    def e_ok(self):
        return self.pr.eabs or bool(self.p.get("e_rel_ok"))

    # -- targets
    def target(self, kind, rsel, i, j):
        regs = self.regions
        if kind not in ("grid", "same", "zero") and not regs:
            kind = "grid"
        if kind == "grid":
            # the bed extends into negative coordinates too (origin-centred printers)
            return (i * 0.5 - 12.0, j * 0.5 - 12.0)
        if kind == "same":
            return (self.pr.x, self.pr.y)
        if kind == "zero":
            # the point whose logical coordinates are exactly 0 (a legal coordinate, falsy in careless code)
            return (self.pr.shift["x"], self.pr.shift["y"])
        reg = regs[rsel % len(regs)]
        if reg["type"] == "rect":
            x1, y1, x2, y2 = geom.norm_rect(reg)
            if kind == "in":
                return (x1 + (x2 - x1) * ((i % 3) + 1) / 4.0, y1 + (y2 - y1) * ((j % 3) + 1) / 4.0)
            side = i % 4
            t = ((j % 3) + 1) / 4.0
            off = {"edge_in": 0.05, "edge_out": -0.05, "border": 0.0, "micro_in": 0.0003, "micro_out": -0.0003}[kind]
            if kind == "border" and not self.border_ok():
                off = 0.05
            if kind == "border" and j % 5 == 0:
                # a corner
                return ((x1, x2)[i % 2], (y1, y2)[(i // 2) % 2])
            if side == 0:
                return (x1 + off, y1 + (y2 - y1) * t)
            if side == 1:
                return (x2 - off, y1 + (y2 - y1) * t)
            if side == 2:
                return (x1 + (x2 - x1) * t, y1 + off)
            return (x1 + (x2 - x1) * t, y2 - off)
        cx, cy, r = reg["cx"], reg["cy"], reg["r"]
        if kind == "in":
            a = (i % 8) * math.pi / 4
            f = (0.0, 0.5, 0.9)[j % 3]
            return (cx + r * f * math.cos(a), cy + r * f * math.sin(a))
        if kind == "border" and self.border_ok():
            k = i % 4
            return (cx + (r, -r, 0, 0)[k], cy + (0, 0, r, -r)[k])
        a = (i % 8) * math.pi / 4
        rr = r - 0.05 if kind in ("edge_in", "border") else r + 0.05
        if kind in ("micro_in", "micro_out"):
            # a few tenths of a micron from the rim: survives 5-decimal rendering in mm, and the border band of the
            # oracle (1e-6) keeps whichever side the rendered number lands on decidable
            rr = r - 0.0003 if kind == "micro_in" else r + 0.0003
        if rr < 0:
            rr = 0.0
        return (cx + rr * math.cos(a), cy + rr * math.sin(a))

    def border_ok(self):
        return self.exact and self.pr.trivial_frame()

    # -- ops
    def op(self, o):  # noqa: C901  pylint: disable=too-many-branches,too-many-statements,too-many-locals
        k = o[0]
        pr = self.pr
        if k == "mv":
            _, kind, rsel, i, j, mask, z, ext, feed, g = o
            tx, ty = self.target(kind, rsel, i, j)
            nd = 5
            words = ""
            if mask & 1:
                words += " X" + fmt(self.lx("x", tx), nd)
            if mask & 2:
                words += " Y" + fmt(self.lx("y", ty), nd)
            if z is not None:
                words += " Z" + fmt(self.lx("z", z), nd)
            if not words and ext <= 0:
                words = " F%s" % fmt((feed or 1200) / pr.u, 3)
                self.g(g + words)
                return
            if ext == 99:
                # a travel move that repeats the unchanged E value (some slicers do): neither extrusion nor retraction
                if words and pr.eabs:
                    w_ = self.e_word(pr.e)
                    # ... if the number of decimals written can express it: a word that differs from the current E by more than
                    # unit-conversion round-off would be a (sub-nanometre) extrusion while retracted, which no program of the domain does
                    if abs(float(w_[2:]) * pr.u - pr.e) <= 4e-16 * abs(pr.e):
                        words += w_
            elif ext > 0 and not self.retracted and self.e_ok():
                words += self.e_word(pr.e + ext * 0.127)
            elif ext < 0 and self.p["retract"] == "wild" and self.e_ok():
                words += self.e_word(pr.e - 0.127 * 4)
            elif (ext < 0 and self.p.get("wipe") and self.p["retract"] == "matched" and words and not self.fw
                  and not self.retracted and self.e_ok()):
                # a wipe: the retraction of a matched cycle made while travelling (change C05-r13-1); the next cycle() recovers it
                words += self.e_word(pr.e - self.delta)
                self.retracted = True
            if feed is not None:
                words += " F" + fmt(feed / pr.u, 3)
            if not words:
                return
            self.g(g + words, precheck=True)
        elif k == "cvisit":
            _, pat, rsel, i, j = o
            for n_, tok in enumerate(pat):
                if tok == "R":
                    self.cycle()
                elif tok == "I":
                    self.op(("mv", "in", rsel, i + n_, j + n_, 3, None, 0, None, "G1"))
                elif tok == "O":
                    self.op(("mv", "edge_out", rsel, i + n_, j + n_, 3, None, 0, None, "G1"))
                elif tok == "D" and self.p["at"]:
                    self.op(("at", "off", "ExcludeRegion", False))
                    self.op(("at", "on", "ExcludeRegion", False))
                elif tok == "A" and self.p["reg_events"]:
                    # the user draws a region now (mid-cycle); the following I enters the most recent one
                    self.add_region(("reg", "new", (i * 131 + j * 17 + n_) % 10 ** 6))
                    rsel = len(self.regions) - 1
                elif tok == "Z" and self.p["g92e"]:
                    self.op(("sete", 0.0))
                elif tok == "S" and self.p["g92e"]:
                    self.op(("sete", (0.0, 1.27, 5.08)[(i + n_) % 3]))
                elif tok == "T":
                    # a travel that repeats the unchanged E word
                    self.op(("mv", "grid", rsel, (i * 5 + n_) % 121, (j * 3 + n_) % 121, 3, None, 99, None, "G1"))
                elif tok == "P":
                    self.op(("mv", "grid", rsel, (i * 3 + n_) % 121, (j * 5 + n_) % 121, 3, None, 2, None, "G1"))
        elif k == "relarc":
            if self.exact:
                self.rewrites += 1
                return
            was_abs = self.pr.abs
            if was_abs:
                self.g("G91")
            mark = len(self.prog)
            self.arc(o[1])
            text = self.prog[-1][1] if len(self.prog) > mark and self.prog[-1][0] == "g" else None
            if o[2] is not None:
                self.op(o[2])
                if text is not None and not self.pr.abs and o[1][2] % 2 == 0:
                    # the identical arc words again, from another start point (under G91 the same shape, translated)
                    # (without its E word: repeating an absolute E value would be an unmatched retraction)
                    self.g(re.sub(r" E[-0-9.]+", "", text), precheck=True)
            if was_abs:
                self.g("G90")
        elif k == "offon":
            _, inner, i, mask, word = o
            self.op(("at", word, "ExcludeRegion", False))
            for sub in inner:
                self.op(sub)
            self.op(("at", "on", "ExcludeRegion", False))
            if not self.pr.abs:
                self.g("G90")
            self.op(("mv", "grid", 0, i, i, mask, None, 0, None, "G1"))
        elif k == "posupd":
            if pr.x is not None:
                rel_now = o[1] and pr.abs and self.p["rel"] and not self.exact      # (the answer may arrive while the file is in G91)
                if rel_now:
                    self.g("G91")
                self.prog.append(["event", "POSITION_UPDATE", {"x": round(pr.logical("x"), 4), "y": round(pr.logical("y"), 4), "z": round(pr.logical("z"), 4),
                                                              "e": round(pr.e / pr.u, 4), "t": 0, "f": 1500.0}])
                if rel_now:
                    self.g("G1 X%s" % fmt(0.5 / pr.u, 5), precheck=True)
                    self.g("G90")
        elif k == "homevisit":
            if self.open or self.exact:
                self.rewrites += 1
            else:
                if self.pr.abs:
                    self.g("G1 Z" + fmt(self.lx("z", o[1]), 5))
                if self.open:
                    self.rewrites += 1       # (the Z move itself opened an episode: the tool stood in a region while exclusion was off)
                else:
                    self.g("G28" + o[2])
                    self.op(o[3])
        elif k == "again":
            last = self.prog[-1] if self.prog else None
            if last is not None and last[0] == "g" and last[1].startswith(("G0 ", "G1 ")) and any(w in last[1] for w in (" X", " Y", " Z")):
                self.g(last[1], precheck=True)
        elif k == "zres":
            if self.exact:
                self.rewrites += 1
                return
            was_abs = self.pr.abs
            if was_abs and o[1]:
                self.g("G1 Z0")
            if was_abs:
                self.g("G91")
            for d in ("0.1", "0.2", "-0.3"):
                self.g("G1 Z" + fmt(float(d) / self.pr.u, 9))
            if was_abs:
                self.g("G90")
        elif k == "stress":
            self.stress(o)
        elif k == "visit":
            _, rsel, i, j, z, ext, inner, leave = o
            back = (pr.x, pr.y)
            self.op(("mv", "in", rsel, i, j, 3, z, ext, None, "G1"))
            for sub in inner:
                self.op(sub)
            if leave == "out":
                self.op(("mv", "edge_out", rsel, i, j, 3, None, ext, None, "G1"))
            elif leave == "grid":
                self.op(("mv", "grid", rsel, (i * 7) % 121, (j * 5) % 121, 3, None, 0, None, "G0"))
            elif leave == "back" and back[0] is not None:
                # straight back to the very point the tool was at before the visit
                self.g("G1 X%s Y%s" % (fmt(self.lx("x", back[0]), 6), fmt(self.lx("y", back[1]), 6)), precheck=True)
            elif leave == "disable" and self.p["at"]:
                self.op(("at", "off", "ExcludeRegion", False))
                self.op(("mv", "grid", rsel, i, j, 3, None, 0, None, "G0"))
                self.op(("at", "on", "ExcludeRegion", False))
        elif k == "arc":
            self.arc(o)
        elif k == "cyc":
            self.cycle()
        elif k == "wild":
            self.wild(o)
        elif k == "sete":
            # under G91 with "G90 influences extruder" the E axis is relative: G92 E there is outside the
            # supported dialect (the plugin reads the value as relative, firmware as absolute)
            if self.e_ok():
                self.g("G92 E" + fmt(o[1] / pr.u, 5))
            else:
                self.rewrites += 1
        elif k == "units":
            if self.exact:
                self.rewrites += 1      # the exact-border family stays in the trivial frame
            else:
                self.g("G21" if pr.u != 1.0 else "G20")
        elif k == "mode":
            if self.exact:
                self.rewrites += 1
            else:
                self.g("G90" if not pr.abs else "G91")
        elif k == "home":
            if self.open:
                self.rewrites += 1
                self.g("M400")
            else:
                self.g("G28" + o[1])
        elif k == "ext":
            self.g(EXT_POOL[o[1]])
        elif k == "feed":
            self.g("G1 F" + fmt(o[1] / pr.u, 3))
        elif k == "at":
            _, params, cmd, streaming = o
            if getattr(self, "no_enable", False) and self.atm.actions(cmd, params, False).count("enable"):
                params = "foo"
            item = ["at", cmd, params]
            if streaming:
                item.append(streaming)          # True: streaming to SD; "paused": the print is paused when it arrives
            self.prog.append(item)
            for act in self.atm.actions(cmd, params, streaming is True):
                if act == "disable":
                    self.enabled = False
                    self.open = False
                else:
                    self.enabled = True
        elif k == "unreg":
            if self.regions:
                reg = self.regions.pop(o[1] % len(self.regions))
                self.prog.append(["unreg", reg["id"]])
        elif k == "rereg":
            self.replace_region(o)
        elif k == "set_at":
            self.prog.append(["set_at", o[1]])
            self.atm = AtModel(o[1])
        elif k == "reg":
            self.add_region(o)
        elif k == "rebase":
            if not self.p.get("rebase"):
                self.excluded_known += 1
            elif self.open or not pr.abs:
                self.rewrites += 1
                self.g("M400")
            else:
                w = " X" + fmt(o[1] * 0.5) + " Y" + fmt(o[2] * 0.5)
                if o[3] is not None:
                    w += " Z" + fmt(o[3])
                self.g("G92" + w)

    def stress(self, o):
        """Numeric stress (C07): values for which str(float) would use exponent notation."""
        _, what, n, m = o
        pr = self.pr
        if what == "roundoff":
            was_abs = pr.abs
            if was_abs:
                self.g("G91")
            for d in ("0.1", "0.2", "-0.3"):
                self.g("G1 X%s Y%s" % (d, d), precheck=True)
            if m % 2 == 0:
                self.g("G1 Z0.1")
                self.g("G1 Z0.2")
                self.g("G1 Z-0.3")
            if was_abs:
                self.g("G90")
        elif what == "tiny_e":
            if self.e_ok() and not self.retracted:
                tiny = n * 10.0 ** -(7 + m % 6)
                self.g("G1" + " E" + fmt((pr.e + tiny) / pr.u, 15))
        elif what == "tiny_base":
            # re-base E so that the next retraction / recovery of the cycle ends at a tiny value
            if self.e_ok():
                tiny = n * 10.0 ** -(7 + m % 6)
                base = tiny if self.retracted else self.delta + tiny
                self.g("G92 E" + fmt(base / pr.u, 15))
        elif what in ("huge_xy", "huger_xy", "leave_far") and pr.abs:
            scale = 1e15 if what != "huger_xy" else 1e22
            if what == "leave_far":
                scale = 1e6
            self.g("G1 X%s Y%s" % (fmt(n * scale / pr.u + 0.5, 3), fmt((m + 1) * scale * 3 / pr.u, 3)), precheck=True)
        elif what == "tiny_xy" and pr.abs:
            self.g("G1 X%s Y%s" % (fmt(n * 1e-9, 12), fmt((m + 1) * 1e-9, 12)), precheck=True)
        elif what == "tiny_z" and pr.abs:
            self.g("G1 Z%s" % fmt(n * 1e-8 + 0.2 * (m % 2), 10))
        elif what == "inch_feed":
            self.g("G1 F%s" % fmt(n * 10.0 ** -(5 + m % 5), 11))
        elif what == "tiny_merge":
            # (n == 9: exactly zero - a legal value that careless formatting code drops)
            self.g(["M204 S%s", "M205 X%s", "M73 P%s"][m % 3] % (fmt(n * 1e-9, 11) if n % 10 != 9 else "0"))
        elif what == "spelled_merge":
            # legal spellings a careless number pattern mis-reads: no leading zero, trailing point, explicit plus, leading zeros
            self.g(["M204 S%s", "M205 X%s", "M73 P%s", "M204 T%s P%s"][m % 4].replace("%s P%s", "%s P" + ["5.", ".5"][n % 2])
                   % [".08", "-.35", "5.", "+7", "007", "-.5", "+.25", "0.", "-0"][n % 9])
        elif what == "twin_merge":
            # two different deferred codes with byte-identical parameter text back to back, then one of them again; and words
            # written without blanks where an E word follows a digit
            v = (500, 1000, 8)[n % 3]
            self.g("M204 S%d" % v)
            self.g("M205 S%d" % v)
            self.g(("M205 X%d", "M204 T%d", "M205X8E5", "M204P500T1000")[m % 4] % ((n + 3,) if m % 4 < 2 else ()))
        elif what == "huge_merge":
            self.g(["M204 T%s", "M205 J%s", "M73 R%s"][m % 3] % ("%d" % (n * 10 ** (16 + m))))

    def add_region(self, o):
        _, how, sel = o
        idx = self.nreg
        if how == "here" and (abs(self.pr.x) > 6 or abs(self.pr.y) > 6) and max(abs(self.pr.x), abs(self.pr.y)) < 1e6:
            # (not around a stress coordinate of 1e15 and more: neighbouring floats are further apart there than the region is wide)
            x, y = self.pr.x, self.pr.y
            if sel % 2:
                h = (1.25, 2.25, 4.25)[(sel // 2) % 3]
                reg = {"type": "rect", "x1": x - h, "y1": y - h, "x2": x + h, "y2": y + h, "id": "r%d" % idx}
                if geom.signed_dist(reg, 0.0, 0.0) < 3.0:
                    return
            else:
                r = (1.3, 2.3, 3.3)[(sel // 2) % 3]
                reg = {"type": "circ", "cx": x, "cy": y, "r": r, "id": "r%d" % idx}
                if geom.signed_dist(reg, 0.0, 0.0) < 3.0:
                    return
        else:
            a, b = 3 + sel % 43, 3 + (sel // 43) % 43
            w, h = (1, 2, 4, 8, 15)[(sel // 1849) % 5], (1, 2, 4, 8, 15)[(sel // 9245) % 5]
            reg = {"type": "rect", "x1": a + 0.25, "y1": b + 0.25, "x2": a + w + 0.25, "y2": b + h + 0.25,
                   "id": "r%d" % idx}
        self.nreg += 1
        self.regions.append(reg)
        self.prog.append(["reg", reg])

    def raster(self, k, where, codes):
        """A long stretch of k *distinct* moves (a 0.05 / 0.25 mm lattice): in the always free corner beyond (70,70) or inside a
        region that is large enough (all suppressed), optionally sprinkled with distinct deferred-code instances."""
        pr = self.pr
        was_abs = pr.abs
        if not was_abs:
            self.g("G90")
        box = None
        if where == "in":
            for reg in self.regions:
                if reg["type"] == "rect":
                    x1, y1, x2, y2 = geom.norm_rect(reg)
                else:
                    h = reg["r"] * 0.7
                    x1, y1, x2, y2 = reg["cx"] - h, reg["cy"] - h, reg["cx"] + h, reg["cy"] + h
                if x2 - x1 >= 2.5 and y2 - y1 >= 2.5:
                    box = (x1 + 0.2, y1 + 0.2, x2 - 0.2, y2 - 0.2, 0.05)
                    break
        if box is None:
            box = (70.0, 70.0, 95.0, 95.0, 0.25)
        x1, y1, x2, y2, step = box
        ncol = max(2, int((x2 - x1) / step))
        for n in range(k):
            row, col = divmod(n, ncol)
            if row % 2:
                col = ncol - 1 - col
            y = y1 + step * row
            if y > y2:
                break
            self.g("G1 X%s Y%s" % (fmt(self.lx("x", x1 + step * col), 6), fmt(self.lx("y", y), 6)))
            dense = codes and (n % 500) > 470        # (a dense stretch of codes before every 500th move)
            if codes and (n % 9 == 4 or dense):
                self.g(("M117 L%d", "M73 P%d", "M204 S%d", "M205 X%d")[(n // 9 + n % 2) % 4] % (n + 1))
            if codes and n % 7 == 3 and self.p["retract"] == "matched":
                self.cycle()                          # dozens of retract / recover cycles within one stretch
            if codes and n % 8 == 6 and self.p["at"]:
                self.op(("at", "note layer %d" % n, "ExcludeRegion", False))      # distinct @-command lines that match no action
        if not was_abs:
            self.g("G91")

    def replace_region(self, o):
        """The user edits a region mid-print (API update): same id, new geometry (borders stay off the move grid)."""
        _, rsel, how, n = o
        if not self.regions:
            return
        k = rsel % len(self.regions)
        old = self.regions[k]
        new = dict(old)
        d = {"grow": n, "shrink": -n, "shift": 0, "retype": 0}[how]
        if old["type"] == "rect":
            x1, y1, x2, y2 = geom.norm_rect(old)
            if how == "retype":
                new = {"type": "circ", "cx": (x1 + x2) / 2 + 0.1, "cy": (y1 + y2) / 2 + 0.05, "r": max(x2 - x1, y2 - y1) / 2 + 0.2, "id": old["id"]}
            elif how == "shift":
                new.update(x1=x1 + n, x2=x2 + n, y1=y1 - (n % 2), y2=y2 - (n % 2))
            else:
                if d < 0 and (x2 - x1 < 2 * n or y2 - y1 < 2 * n):
                    d = 0
                new.update(x1=x1 - d, y1=y1 - d, x2=x2 + d, y2=y2 + d)
        else:
            if how == "retype":
                h = int(old["r"]) + 0.25
                new = {"type": "rect", "x1": int(old["cx"]) - h, "y1": int(old["cy"]) - h, "x2": int(old["cx"]) + h, "y2": int(old["cy"]) + h, "id": old["id"]}
            elif how == "shift":
                new.update(cx=old["cx"] + n, cy=old["cy"] - (n % 2))
            else:
                new["r"] = old["r"] + d if old["r"] + d > 0 else old["r"]
        if geom.signed_dist(new, 0.0, 0.0) < 3.0 or new == old:
            return
        self.regions[k] = new
        self.prog.append(["rereg", new])

    def cycle(self):
        pr = self.pr
        if self.fw:
            sp = getattr(self, "fw_spelling", 0)
            if not self.retracted:
                self.g(["G10", "G10 S1", "G10S1", "G10 S0"][sp])
            else:
                self.g(["G11", "G11 S1", "G11S1", "G11"][sp])
            self.retracted = not self.retracted
            return
        if not self.e_ok():
            return
        f = " F" + fmt(2400 / pr.u, 3)
        if not self.retracted:
            self.g("G1" + self.e_word(pr.e - self.delta) + f)
        else:
            self.g("G1" + self.e_word(pr.e + self.delta) + f)
        self.retracted = not self.retracted

    def wild(self, o):
        _, what, n = o
        pr = self.pr
        if what == "g10" and self.p.get("g10pl") and n in (2, 8):
            self.g("G10 P%d L1 X0.5" % n if n == 2 else "G10 L2 P1 X0 Y0")
        elif what == "g10":
            self.g("G10")
        elif what == "g11":
            self.g("G11")
        elif what == "g10s":
            self.g("G10 S1")
        elif what == "g11s":
            self.g("G11 S1")
        elif not self.e_ok():
            return
        elif what == "ret":
            self.g("G1" + self.e_word(pr.e - n * 0.127) + " F1800")
        else:
            self.g("G1" + self.e_word(pr.e + n * 0.127))

    def arc(self, o):
        _, r, a0i, sweep_deg, cw, form, z, ext, aim = o
        pr = self.pr
        if form == "R" and not self.p.get("arc_r"):
            form = "IJ"
            self.excluded_known += 1
        if not pr.abs and not self.p.get("arc_rel"):
            self.rewrites += 1
            return
        if not pr.abs and max(abs(pr.x), abs(pr.y)) > 1e6:
            # a relative arc is tracked as a sum of per-segment offsets: at astronomically large coordinates (numeric
            # stress programs) that sum loses millimetres to round-off, which is outside every listed domain (DESIGN 6.3)
            self.rewrites += 1
            return
        a0 = a0i * math.pi / 8
        if aim and self.regions:
            # put the arc's centre on a region's centre so that crossing / enclosing arcs are common
            reg = self.regions[aim % len(self.regions)]
            if reg["type"] == "rect":
                x1, y1, x2, y2 = geom.norm_rect(reg)
                ccx, ccy = (x1 + x2) / 2, (y1 + y2) / 2
            else:
                ccx, ccy = reg["cx"], reg["cy"]
            rr = math.hypot(pr.x - ccx, pr.y - ccy)
            if 0.3 < rr < 40:
                r = rr
                a0 = math.atan2(pr.y - ccy, pr.x - ccx)
        cx, cy = pr.x - r * math.cos(a0), pr.y - r * math.sin(a0)
        if sweep_deg == 360:
            # a full circle is only well defined (for Marlin as for the plugin) when start + offset - start
            # reproduces the offset exactly: dyadic values in the trivial frame; otherwise use 330 degrees
            ii, jj = round((cx - pr.x) * 8) / 8.0, round((cy - pr.y) * 8) / 8.0
            if pr.trivial_frame() and geom._dyadic(pr.x, pr.y) and (ii or jj):
                cx, cy = pr.x + ii, pr.y + jj
                r = math.hypot(ii, jj)
                a0 = math.atan2(-jj, -ii)
            else:
                sweep_deg = 330
        sweep = math.radians(sweep_deg) * (-1 if cw else 1)
        if sweep_deg == 360:
            ex, ey = pr.x, pr.y
        else:
            ex, ey = cx + r * math.cos(a0 + sweep), cy + r * math.sin(a0 + sweep)
        code = "G2" if cw else "G3"
        u = pr.u
        words = ""
        if sweep_deg != 360:
            words += " X" + fmt(self.lx("x", ex), 5) + " Y" + fmt(self.lx("y", ey), 5)
        if form == "IJ":
            words += " I" + fmt((cx - pr.x) / u, 5) + " J" + fmt((cy - pr.y) / u, 5)
        else:
            if sweep_deg == 360:
                return
            words += " R" + fmt((r if sweep_deg <= 180 else -r) / u, 5)
        if z is not None:
            words += " Z" + fmt(self.lx("z", z), 5)
        if ext > 0 and not self.retracted and self.e_ok():
            words += self.e_word(pr.e + ext * 0.127)
        self.g(code + words, precheck=True)


_WORD = re.compile(r"^([A-Z])(-?)(\d+)(?:\.(\d+))?$")


def respell(cmd, style):
    """The same motion command with its numbers in another legal spelling: 'compact' drops the leading zero and writes
    integers with a trailing point (X.5, Y-.25, Z5.), 'plus' gives non-negative values an explicit sign."""
    parts = cmd.split(" ")
    if style == "plain" or parts[0] not in ("G0", "G1", "G2", "G3", "G92"):
        return cmd
    if style == "packed":
        return "".join(parts)        # no blanks between the words at all (G1X50Y50E1.5)
    out = [parts[0]]
    for w in parts[1:]:
        m = _WORD.match(w)
        if not m:
            out.append(w)
            continue
        letter, sign, ip, fp = m.groups()
        if style == "compact":
            if fp is None:
                t = ip + "."
            elif ip == "0":
                t = "." + fp
            else:
                t = ip + "." + fp
            out.append(letter + sign + t)
        else:
            out.append(letter + (sign or "+") + ip + ("." + fp if fp is not None else ""))
    return " ".join(out)


def respell_prog(prog, style):
    return [["g", respell(it[1], style)] if it[0] == "g" else it for it in prog]


@st.composite
def cases(draw, p):
    """A concrete case {"config","regions","prog"} plus "meta" (generator bookkeeping)."""
    ck = ("cfg",) + _key(p)
    if ck not in _CACHE:
        _CACHE[ck] = config(p)
        for k in range(4):
            for ex in (False, True):
                _CACHE[("reg", k, ex)] = region(k, ex)
    cfg = draw(_CACHE[ck])
    exact = p["exact"] and draw(st.integers(0, 3)) == 0
    nreg = draw(st.sampled_from([0, 1, 1, 1, 2, 2, 3]))
    regions = [draw(_CACHE[("reg", k, exact)]) for k in range(nreg)]
    delta = draw(st.sampled_from([0.508, 1.27, 2.54, 0.508, 1.27, 2.54, 12.7]))      # (12.7 mm: a long Bowden retraction)
    fw = draw(st.booleans())
    abstract = draw(ops(p))
    rnd = Renderer(cfg, regions, p, delta, fw, exact)
    rnd.fw_spelling = draw(st.sampled_from([0, 0, 1, 2, 3]))
    if p.get("at_w", 2) and draw(st.integers(0, 9)) == 0:
        # start G-code that switches exclusion off (or on) before anything else, even before homing
        rnd.op(("at", draw(st.sampled_from(["off", "off", "disable", "on"])), "ExcludeRegion", None))
    rnd.start(inch=bool(p["inch"] and not exact and draw(st.integers(0, 4)) == 0),
              z0=bool(p.get("z0_start", True) and draw(st.integers(0, 5)) == 0))
    # a long print now and then: the same abstract ops over and over (each pass renders differently, from where the last one
    # ended) - hundreds to a few thousand commands on one filter object
    # a long print now and then: the ops, a long stretch of distinct moves (free space or inside a region), then the same ops
    # again (many of them render to the very commands of the first pass) - hundreds to thousands of commands on one filter
    reps = draw(st.sampled_from([0] * int(p.get("long", 25)) + [1])) if p.get("long", 25) else 0
    for o in abstract:
        rnd.op(o)
    if reps:
        for _ in range(draw(st.integers(1, 2))):
            rnd.raster(draw(st.sampled_from([150, 600, 1300, 1300])), draw(st.sampled_from(["out", "out", "in"])), draw(st.booleans()))
            if p["reg_events"] and rnd.visited and draw(st.booleans()):
                # the user draws a region over a place the tool has been to long ago - and will come back to
                vx, vy = rnd.visited[draw(st.integers(0, len(rnd.visited) - 1))]
                if (abs(vx) > 6 or abs(vy) > 6) and max(abs(vx), abs(vy)) < 1e6:
                    reg = {"type": "circ", "cx": vx + 0.1, "cy": vy - 0.15, "r": 1.3, "id": "r%d" % rnd.nreg}
                    rnd.nreg += 1
                    rnd.regions.append(reg)
                    rnd.prog.append(["reg", reg])
            for o in abstract:
                rnd.op(o)
    via = draw(st.sampled_from(["direct", "direct", "plugin"])) if p.get("via_plugin", True) else "direct"
    spell = draw(st.sampled_from(["plain"] * 5 + ["compact", "plus", "packed"])) if p.get("spell", True) else "plain"
    return {"config": cfg, "regions": regions, "prog": respell_prog(rnd.prog, spell), "via": via,
            "meta": {"rewrites": rnd.rewrites, "fw": fw, "delta": delta, "exact": exact,
                     "excluded_known": rnd.excluded_known, "reps": reps}}
