"""Plugin-layer harness: a real ExcludeRegionPlugin with deterministic stubs for the objects
OctoPrint injects (settings, plugin manager, logger, current user, comm).  No file system, no
mocks of the code under test."""
import copy
import json

from . import env, gread
from .core import Comm, normalise, DEFAULT_AT

import flask
import octoprint_excluderegion as pkg
from octoprint.events import Events
from octoprint.util.comm import gcode_and_subcode_for_cmd

ExcludeRegionPlugin = pkg.ExcludeRegionPlugin

_APP = flask.Flask("verif_excluderegion")


def fresh_objects(value):
    """An equal value made of newly created objects (as after a JSON / YAML round trip)."""
    if isinstance(value, str):
        return "".join(list(value)) if value else value
    if isinstance(value, dict):
        return dict((fresh_objects(k), fresh_objects(v)) for k, v in value.items())
    if isinstance(value, (list, tuple)):
        return [fresh_objects(v) for v in value]
    return value


class StubSettings(object):
    """Dict-backed stand-in for the plugin's settings object."""

    def __init__(self, values):
        self.values = values

    def get(self, path, **kwargs):  # pylint: disable=unused-argument
        # what OctoPrint hands out was loaded from YAML / JSON: equal values, but never the very string objects of the source code
        return fresh_objects(self.values.get(path[0]))

    def get_boolean(self, path, **kwargs):  # pylint: disable=unused-argument
        # octoprint.settings.Settings.get_boolean: bools as they are, numbers != 0, strings by their spelling
        value = self.values.get(path[0])
        if value is None or isinstance(value, bool):
            return bool(value)
        if isinstance(value, (int, float)):
            return value != 0
        if isinstance(value, str):
            return value.lower() in ("true", "yes", "y", "1", "on")
        return value is not None

    def get_plugin_logfile_path(self, *args, **kwargs):  # pylint: disable=unused-argument
        return "/dev/null"


class GlobalSettings(object):
    def __init__(self):
        self.g90e = False

    def getBoolean(self, path, **kwargs):  # noqa: N802  pylint: disable=unused-argument
        if list(path) == ["feature", "g90InfluencesExtruder"]:
            return self.g90e
        return False


class PluginManager(object):
    def __init__(self):
        self.messages = []

    def send_plugin_message(self, identifier, payload):
        self.messages.append((identifier, copy.deepcopy(payload)))


class User(object):
    def __init__(self):
        self.anonymous = False

    def is_anonymous(self):
        return self.anonymous


GLOBAL = GlobalSettings()
USER = User()
pkg.settings = lambda: GLOBAL
pkg.current_user = USER

DEFAULT_EXT_LIST = [
    {"gcode": "G4", "mode": "exclude", "description": ""},
    {"gcode": "M204", "mode": "merge", "description": ""},
    {"gcode": "M205", "mode": "merge", "description": ""},
    {"gcode": "M117", "mode": "last", "description": ""},
    {"gcode": "M73", "mode": "merge", "description": ""},
]


def settings_from_config(config):
    ext = config.get("ext")
    ext_list = DEFAULT_EXT_LIST if ext is None else [{"gcode": g, "mode": m, "description": ""} for g, m in ext.items()]
    at = config.get("at")
    at_list = [dict(e, description="") for e in (DEFAULT_AT if at is None else at)]
    for e in at_list:
        e.setdefault("parameterPattern", None)
    return {
        "clearRegionsAfterPrintFinishes": bool(config.get("clear_after_print")),
        "mayShrinkRegionsWhilePrinting": bool(config.get("may_shrink")),
        "loggingMode": "octoprint",
        "enteringExcludedRegionGcode": config.get("enter_script", "\n".join(config["enter"]) if config.get("enter") else None),
        "exitingExcludedRegionGcode": config.get("exit_script", "\n".join(config["exit"]) if config.get("exit") else None),
        "extendedExcludeGcodes": ext_list,
        "atCommandActions": at_list,
    }


class Harness(object):
    """One plugin instance plus the objects it talks to."""

    def __init__(self, config=None, debug=False, values=None, g90e=None):
        config = config or {}
        self.config = config
        # (values: start from these settings as they are - a plugin that has never seen any others)
        self.plugin = ExcludeRegionPlugin()
        if values is None:
            # what the configuration does not name comes from the plugin's own defaults, as on a fresh installation (the oracles
            # expect the documented defaults: both options off, the five deferred codes, ExcludeRegion on / off)
            self.values = settings_from_config(config)
            defaults = copy.deepcopy(self.plugin.get_settings_defaults())
            for cfg_key, key in (("at", "atCommandActions"), ("ext", "extendedExcludeGcodes"),
                                 ("clear_after_print", "clearRegionsAfterPrintFinishes"), ("may_shrink", "mayShrinkRegionsWhilePrinting")):
                if config.get(cfg_key) is None and key in defaults:
                    self.values[key] = defaults[key]
        else:
            self.values = copy.deepcopy(values)
        self.plugin._settings = StubSettings(self.values)            # pylint: disable=protected-access
        self.pm = PluginManager()
        self.plugin._plugin_manager = self.pm                          # pylint: disable=protected-access
        self.plugin._logger = env.make_logger(debug or bool(config.get("debug")))   # pylint: disable=protected-access
        self.plugin._identifier = "excluderegion"                      # pylint: disable=protected-access
        self.plugin._plugin_version = "verif"                          # pylint: disable=protected-access
        self.g90e = bool(config.get("g90e")) if g90e is None else bool(g90e)
        self.comm = Comm()
        self._sync_globals()
        self.plugin.initialize()

    def _sync_globals(self, anonymous=False):
        GLOBAL.g90e = self.g90e
        USER.anonymous = anonymous

    # ------------------------------------------------------------------ drive
    @property
    def state(self):
        return self.plugin.state

    def event(self, name, payload=None):
        self._sync_globals()
        try:
            self.plugin.on_event(getattr(Events, name), payload or {})
        except Exception as exc:  # pylint: disable=broad-except
            # OctoPrint's event bus logs and swallows a handler's exception; checks that want the same set swallow_event_errors
            if not getattr(self, "swallow_event_errors", False):
                raise
            self.event_errors = getattr(self, "event_errors", []) + ["%s: %s" % (type(exc).__name__, exc)]

    def update_settings(self, **changes):
        for k, v in changes.items():
            if k == "g90e":
                self.g90e = bool(v)
            else:
                self.values[k] = v
        self.event("SETTINGS_UPDATED")

    def gcode_raw(self, cmd, source="file"):
        """handleGcodeQueuing exactly as OctoPrint's comm layer would call it (tags as OctoPrint attaches them)."""
        self._sync_globals()
        gcode, subcode = gcode_and_subcode_for_cmd(cmd)
        self.lineno = getattr(self, "lineno", 0) + 1
        if source == "file":
            tags = {"source:file", "filepos:%d" % (self.lineno * 20), "fileline:%d" % self.lineno}
        elif source == "none":
            tags = None
        else:
            tags = {"source:" + source}
        return self.plugin.handleGcodeQueuing(self.comm, "queuing", cmd, None, gcode, subcode=subcode, tags=tags)

    def gcode(self, cmd):
        return normalise(cmd, self.gcode_raw(cmd))

    def at(self, cmd, params, streaming=False):
        self._sync_globals()
        self.comm.sent = []
        self.comm.streaming = streaming is True
        self.comm.paused = streaming == "paused"
        rv = self.plugin.handleAtCommandQueuing(self.comm, "queuing", cmd, params, tags=set())
        return rv, list(self.comm.sent)

    def script(self, script_type="gcode", name="afterPrintDone"):
        self._sync_globals()
        return self.plugin.handleScriptHook(self.comm, script_type, name)

    def api(self, command, data, anonymous=False):
        self._sync_globals(anonymous)
        try:
            return self.plugin.on_api_command(command, fresh_objects(dict(data)))      # (a parsed JSON body)
        finally:
            USER.anonymous = False

    def api_get(self):
        self._sync_globals()
        with _APP.app_context():
            resp = self.plugin.on_api_get(None)
            return json.loads(resp.get_data(as_text=True))

    def regions(self):
        return [r.toDict() for r in self.state.excludedRegions]


class PluginFilter(object):
    """Adapter with the DirectFilter interface (core.run) on top of a Harness with an active print."""

    def __init__(self, config, regions, harness=None):
        if "may_shrink" not in config:
            config = dict(config, may_shrink=True)      # so that region deletions mid-print can be part of a history
        self.h = harness or Harness(config)
        if harness is None:
            for reg in regions:
                self.add_region(reg)
            self.h.event("PRINT_STARTED")
        self.state = self.h.state
        self.comm = self.h.comm

    def gcode(self, cmd):
        # most commands come from the file being printed, a few from elsewhere (terminal, API, another plugin, no tags at all):
        # during an active print the hook treats them all alike
        self.ncmd = getattr(self, "ncmd", 0) + 1
        source = "file" if self.ncmd % 6 else ("api", "plugin:other", "none")[(self.ncmd // 6) % 3]
        return self.h.gcode_raw(cmd, source)

    def at(self, cmd, params, streaming=False):
        return self.h.at(cmd, params, streaming)

    def add_region(self, reg):
        data = dict(reg)
        data["type"] = "RectangularRegion" if reg["type"] == "rect" else "CircularRegion"
        rv = self.h.api("addExcludeRegion", data)
        if rv is not None:
            raise RuntimeError("addExcludeRegion refused: %r" % (rv,))

    def delete_region(self, region_id):
        rv = self.h.api("deleteExcludeRegion", {"id": region_id})
        if rv is not None:
            raise RuntimeError("deleteExcludeRegion refused: %r" % (rv,))

    def replace_region(self, reg):
        data = dict(reg)
        data["type"] = "RectangularRegion" if reg["type"] == "rect" else "CircularRegion"
        rv = self.h.api("updateExcludeRegion", data)
        if rv is not None:
            raise RuntimeError("updateExcludeRegion refused: %r" % (rv,))


def selftest():
    """Checks the harness only (stubs are wired, calls go through); asserts nothing the properties are about."""
    h = Harness({})
    assert isinstance(h.pm.messages, list) and h.state is not None
    h.gcode("G1 X1")
    h.api("addExcludeRegion", {"type": "RectangularRegion", "x1": 10, "y1": 10, "x2": 20, "y2": 20, "id": "a"})
    assert isinstance(h.api_get(), dict)
    h.event("PRINT_STARTED")
    for c in ("G28", "G1 X1 Y1 Z0.2 F1000"):
        h.gcode(c)
    h.at("ExcludeRegion", "off")
    h.script()
    h.api("deleteExcludeRegion", {"id": "a"}, anonymous=True)
    assert USER.anonymous is False
    h.event("PRINT_DONE")
