#!/venv/bin/python
"""Writes the hand-minimised reproducers of the round-0 observations (DESIGN.md section 6) as
replay files.  Run once; the files are committed."""
import json, os
HERE = os.path.dirname(os.path.dirname(os.path.abspath(__file__)))
R = {"type": "rect", "x1": 10.0, "y1": 10.0, "x2": 20.0, "y2": 20.0, "id": "r0"}

def g(*cmds):
    return [["g", c] for c in cmds]

def w(prop, name, case, note):
    d = os.path.join(HERE, "replays", prop)
    os.makedirs(d, exist_ok=True)
    with open(os.path.join(d, name + ".json"), "w") as fh:
        json.dump({"property": prop, "note": note, "case": case}, fh, indent=1)
        fh.write("\n")

START = ["G28", "G1 X0 Y0 Z0.2 F1000"]
w("C03", "fixed-D1-entry-position", {"config": {}, "regions": [R], "prog": g(*START, "G1 X15 Y15 Z5", "G1 X30 Y30")},
  "entering move also changes Z: exit must still bring the printer to the file's Z")
w("C03", "fixed-D2-relative-exit", {"config": {}, "regions": [R], "prog": g(*START, "G1 X2 Y2", "G91", "G1 X13 Y13", "G1 X15 Y15")},
  "exit while the file is in relative positioning")
w("C01", "fixed-D3-tracking-while-disabled", {"config": {}, "regions": [R], "prog": g(*START) + [["at", "ExcludeRegion", "off"]] + g("G1 X15 Y50") + [["at", "ExcludeRegion", "on"]] + g("G1 Y15", "G1 X16 Y16 E1")},
  "position must keep being tracked while exclusion is disabled")
w("C03", "fixed-D4-arc-early-return", {"config": {}, "regions": [R], "prog": g(*START, "G1 X5 Y15", "G2 X25 Y15 I10 J-20", "G1 X30")},
  "arc through the region followed by a single-axis move out")
w("C03", "fixed-D15-z-order-units", {"config": {}, "regions": [R], "prog": g(*START, "G1 X15 Y15", "G20", "G1 Z0.02", "G1 X2 Y2")},
  "Z comparison at exit must not mix units (0.2 mm before, 0.02 in = 0.508 mm after)")
w("C04", "fixed-D10-owed-recovery-amount", {"config": {}, "regions": [R], "meta": {"fw": False}, "prog": g(*START, "G1 X5 Y5 E5", "G1 E4 F1800", "G1 X15 Y15", "G1 E5", "G1 X30 Y30", "G1 X40 Y30 E6")},
  "owed recovery before an extruding move: the move must still push the file's amount")
w("C04", "fixed-D14-swallowed-retraction", {"config": {}, "regions": [R], "meta": {"fw": False}, "prog": g(*START, "G1 X5 Y5 E5", "G1 E4 F1800", "G1 X15 Y15", "G1 E5", "G1 X30 Y30", "G1 E4 F1800", "G1 X35 Y30", "G1 E5", "G1 X40 Y30 E6")},
  "retraction swallowed outside a region (recovery still owed): printer E must follow the file")
w("C05", "fixed-D14-swallowed-retraction", {"config": {}, "regions": [R], "meta": {"fw": False}, "prog": g(*START, "G1 X5 Y5 E5", "G1 E4 F1800", "G1 X15 Y15", "G1 E5", "G1 X30 Y30", "G1 E4 F1800", "G1 X35 Y30", "G1 E5", "G1 X40 Y30 E6", "G1 E5 F1800", "G1 X41 Y30", "G1 E6", "G1 X42 Y30 E7")},
  "after a swallowed retraction the depth must stay in step for the rest of the print")
print("written")
