"""Per-property manifest entries (source for tools/mkmanifest.py)."""
NOTES = ("All checks: cd /verif && ./check <ID> --tier quick|thorough; they import /repo's working tree (nothing to build), "
         "honour VERIF_SEED, write evidence/<ID>.json, replay committed inputs in replays/<ID>/ first, and print "
         "KNOWN-FINDING lines for open entries of known_findings.json.")

_PENDING = "check not built yet in this round; DESIGN.md section 5 describes the planned generated-input check (to be claimed when it exists)"

_PRINTER_NOTE = ("Trusted: the reference printer vlib/printer.py (Marlin-1.1-like interpreter, self-tested at the start of every run), "
                 "the independent reader vlib/gread.py, the closed geometric tests of vlib/geom.py and the episode oracle in vlib/core.py. "
                 "Cases are truncated at the first move destination inside the oracle's border band (1e-6 mm; 0 in the trivial frame). "
                 "Arcs: I/J form, absolute positioning only (open findings for R form / G91 arcs).")

CHECKS = [
    {"id": "C01", "technique": "property-based testing (Hypothesis): generated programs x regions x region-edit histories, forwarded stream executed on a reference printer and checked against a geometric episode oracle",
     "design_ref": "DESIGN.md 5/C01",
     "level_text": "Generated-input search with an independent oracle over whole programs; thousands of distinct episodes per run, shrinks to a JSON replay. Exploration: no absence claim.",
     "level_note": _PRINTER_NOTE},
    {"id": "C02", "technique": "property-based testing (Hypothesis): path generated first, regions fitted into the free space / exclusion disabled, identity oracle on the whole output stream",
     "design_ref": "DESIGN.md 5/C02",
     "level_text": "Generated-input search with an identity oracle; the precondition (path clear of regions) holds by construction, not by filtering. Exploration.",
     "level_note": "Trusted: reference printer (to know which points the path visits) and vlib/geom.py. Regions are kept 0.25 mm clear of every visited point and of the full-circle bounding box of every arc. Open findings KF-G92-XYZ-SIGN and KF-C16-RCENTRE: G92 X/Y/Z and R-form arcs are not rendered in the mode that places regions (counted as excluded_known)."},
    {"id": "C03", "technique": "property-based testing (Hypothesis): differential execution filtered vs unfiltered stream on a reference printer, Z-ordering invariant over the exit sequence",
     "design_ref": "DESIGN.md 5/C03",
     "level_text": "Generated-input search comparing the printer state reached through the filter with the state the unfiltered file produces after every move outside all regions. Exploration.",
     "level_note": _PRINTER_NOTE},
    {"id": "C04", "technique": "property-based testing (Hypothesis): differential execution of E coordinate, pushed filament and deposited plastic, filtered vs unfiltered, on a reference printer",
     "design_ref": "DESIGN.md 5/C04",
     "level_text": "Generated-input search over retraction histories (matched equal-length cycles, G92 E anywhere, mm/inch) with a differential oracle. Exploration.",
     "level_note": _PRINTER_NOTE + " Domain: absolute extrusion mode (no E word while G91 is active with G90-influences-extruder on)."},
    {"id": "C05", "technique": "property-based testing (Hypothesis): invariants on physical retraction depth (filament high-water mark minus position) filtered vs unfiltered, firmware-retraction parity",
     "design_ref": "DESIGN.md 5/C05",
     "level_text": "Generated-input search over long alternations of retract / recover / enter / exit with depth invariants I1-I3 and an exactly-once recovery check. Exploration.",
     "level_note": _PRINTER_NOTE},
    {"id": "C06", "technique": "property-based testing (Hypothesis) through the plugin object: ordered-map reference model of deferred codes driven by the geometric episode oracle; script emission counting",
     "design_ref": "DESIGN.md 5/C06",
     "level_text": "Generated-input search over mode assignments x scripts x programs x ways an episode ends, compared with a reference model after every command. Exploration.",
     "level_note": "Trusted: reference model in props/c06.py, independent reader vlib/gread.py (merge values), episode oracle of C01, plugin harness stubs (vlib/plugin_harness.py). Programs are mm/absolute with linear moves."},
    {"id": "C10", "technique": "property-based testing (Hypothesis): differential twin - plugin with an arbitrary generated prior history vs freshly initialised plugin, same regions/settings, same program after print-started",
     "design_ref": "DESIGN.md 5/C10",
     "level_text": "Generated histories x programs with a differential oracle on every hook result, sent command and exception type. Exploration.",
     "level_note": "Trusted: plugin harness stubs (vlib/plugin_harness.py); OctoPrint's own gcode_and_subcode_for_cmd to derive hook arguments. Behaviour only - internal state is not compared."},
    {"id": "C11", "technique": "stateful property-based testing (Hypothesis RuleBasedStateMachine) against a reference model of the print lifecycle, with an ungated twin filter for the active phase",
     "design_ref": "DESIGN.md 5/C11",
     "level_text": "Model-based stateful search over interleavings of events, hook invocations, settings updates and API adds; invariants after every step. Exploration.",
     "level_note": "Trusted: two-variable reference model in props/c11.py, plugin harness stubs. Print-end events delivered while no print is active are left unspecified. Un-homed exceptions are tolerated (outside the listed domains)."},
    {"id": "C15", "technique": "property-based testing (Hypothesis) through the plugin's script hook: reference-printer differential for the contributed prefix, C06 reference model for its shape, state-snapshot comparison for inert invocations",
     "design_ref": "DESIGN.md 5/C15",
     "level_text": "Generated programs x script-hook invocation sequences; exactly-once and inertness checked on every invocation. Exploration.",
     "level_note": _PRINTER_NOTE + " Shape of the prefix judged by the C06 reference model."},
    {"id": "C12", "technique": "stateful property-based testing (Hypothesis RuleBasedStateMachine) over API request histories with a geometric probe-point oracle (excluded before implies excluded after)",
     "design_ref": "DESIGN.md 5/C12",
     "level_text": "Model-free stateful search: request geometry is derived from the region being replaced (grown/shrunk/shifted/type-changed, touching and nearly touching) and membership of a fixed probe set is compared before and after each request. Exploration.",
     "level_note": "Trusted: vlib/geom.py probe sets and signed distances; plugin harness stubs. A probe counts as lost only if it ends up outside every region by more than 1e-9 x coordinate scale."},
    {"id": "C13", "technique": "stateful property-based testing (Hypothesis RuleBasedStateMachine) against an ordered-list reference model of the region registry; notifications and GET compared after every step",
     "design_ref": "DESIGN.md 5/C13",
     "level_text": "Model-based stateful search over API requests (valid, duplicate, unknown, malformed, anonymous) interleaved with events and settings changes. Exploration.",
     "level_note": "Trusted: list model in props/c13.py; stub plugin manager recording send_plugin_message; flask test app context for on_api_get; current_user stub with callable is_anonymous()."},
    {"id": "C14", "technique": "property-based testing (Hypothesis): programs with @-commands, independent model of the action table, reference-printer differential and state-snapshot comparison",
     "design_ref": "DESIGN.md 5/C14",
     "level_text": "Generated-input search over programs x action tables with an enabled/disabled reference model; checks no suppression while disabled, re-synchronisation on a disable inside an episode, decisions after re-enabling against the true position, and inertness of unmatched / streaming @-commands. Exploration.",
     "level_note": _PRINTER_NOTE + " The action-table model uses Python's re.match like the plugin's documented semantics."},
    {"id": "C18", "technique": "property-based testing (Hypothesis) of round-trip / idempotence laws of the parser: lossless parseLines, stable normalisation, independent XOR checksum validation",
     "design_ref": "DESIGN.md 5/C18",
     "level_text": "Generated free text and structured files against algebraic laws (concatenation identity, idempotent normalisation, checksum validity by the parser's own validate() and by an independent Marlin-style XOR). Exploration.",
     "level_note": "Trusted: nothing but Python string operations; one shared parser instance is used through parseLines, as the plugin does."},
    {"id": "C19", "technique": "property-based testing (Hypothesis): structurally generated parameter words whose expected reading is the generator's own structure; handler effects compared with the last value per letter",
     "design_ref": "DESIGN.md 5/C19",
     "level_text": "Generated word sequences in all legal spellings; the oracle never parses (expected pairs come from the generator). Exploration.",
     "level_note": "Trusted: Python float() of the generated spelling. G92 X/Y/Z expectations are excluded while KF-G92-XYZ-SIGN is open (counted as excluded_known)."},
    {"id": "C20", "technique": "property-based testing (Hypothesis): differential twin - StreamProcessor.process_line vs GcodeHandlers on a deep copy of the live state fed through an independent line normaliser; live-state snapshot for isolation",
     "design_ref": "DESIGN.md 5/C20",
     "level_text": "Generated live-state histories x files (line numbers, checksums, comments, blank lines, @-commands, LF/CRLF, missing final terminator), compared line for line with the live path. Exploration.",
     "level_note": "Trusted: the line normaliser in props/c20.py (what OctoPrint hands to the queuing hooks) and vlib/gread.py."},
    {"id": "C16", "technique": "property-based testing (Hypothesis) of planArc / computeArcCenterOffsets / the G2-G3 handler against analytic circle geometry",
     "design_ref": "DESIGN.md 5/C16",
     "level_text": "Generated arcs over the whole stated range of start points, radii, sweeps, directions and both forms, judged by an analytic oracle (on-circle, equal signed steps, total sweep, spacing, exact end point, |R| equidistance) plus end-to-end suppression / pass-through decisions. Exploration.",
     "level_note": "Trusted: math.atan2/hypot with the stated tolerances. Open finding KF-C16-RCENTRE: the equidistance assertion on R-form arcs with a non-axis-aligned chord is excluded (counted); the mirror side chosen by the R form is not asserted."},
    {"id": "C17", "technique": "property-based testing (Hypothesis) against exact rational arithmetic and probe-point soundness oracle",
     "design_ref": "DESIGN.md 5/C17",
     "level_text": "Generated search over region pairs and probe points with an exact-arithmetic oracle; finds any membership/containment error larger than a few ulp on the explored inputs, does not prove absence.",
     "level_note": "Trusted: Python Fraction/Decimal arithmetic, vlib/geom.py. Disc membership inside an 8-ulp band around the border is only asserted on exactly representable border points."},
]

_ALL = ["C%02d" % i for i in range(1, 21)]
NOT_APPLICABLE = [{"property_id": p, "reason": _PENDING} for p in _ALL if p not in [c["id"] for c in CHECKS]]
