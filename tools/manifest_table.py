"""Per-property manifest entries (source for tools/mkmanifest.py)."""
NOTES = ("All checks: cd /verif && ./check <ID> --tier quick|thorough; they import /repo's working tree (nothing to build), "
         "honour VERIF_SEED, write evidence/<ID>.json, replay committed inputs in replays/<ID>/ first, and print "
         "KNOWN-FINDING lines for open entries of known_findings.json.")

_PENDING = "check not built yet in this round; DESIGN.md section 5 describes the planned generated-input check (to be claimed when it exists)"

CHECKS = [
    {"id": "C17", "technique": "property-based testing (Hypothesis) against exact rational arithmetic and probe-point soundness oracle",
     "design_ref": "DESIGN.md 5/C17",
     "level_text": "Generated search over region pairs and probe points with an exact-arithmetic oracle; finds any membership/containment error larger than a few ulp on the explored inputs, does not prove absence.",
     "level_note": "Trusted: Python Fraction/Decimal arithmetic, vlib/geom.py. Disc membership inside an 8-ulp band around the border is only asserted on exactly representable border points."},
]

_ALL = ["C%02d" % i for i in range(1, 21)]
NOT_APPLICABLE = [{"property_id": p, "reason": _PENDING} for p in _ALL if p not in [c["id"] for c in CHECKS]]
