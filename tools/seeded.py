#!/venv/bin/python
"""Evaluate sub-agent seeded changes.

usage: tools/seeded.py <agent-out-dir> <N> <PROP> [<extra check ids>...]

1. clean scratch copy of /repo: demo must exit 0
2. patched scratch copy: pinned suite at baseline (416 passed), demo must exit 1
3. quick check(s) against the patched copy (VERIF_REPO): caught / missed
Writes /verif/seeded/<PROP>-<tag>/{patch.diff,demo.py,note.txt,meta.json} when 1+2 are confirmed.
"""
import json, os, shutil, subprocess, sys, tempfile


def sh(cmd, cwd=None, env=None, timeout=1800):
    p = subprocess.run(cmd, shell=True, cwd=cwd, env=env, capture_output=True, text=True, timeout=timeout)
    return p.returncode, p.stdout + p.stderr


def main():
    outdir, n, prop = sys.argv[1], sys.argv[2], sys.argv[3]
    extra = sys.argv[4:]
    diff = os.path.join(outdir, "mut%s.diff" % n)
    demo = os.path.join(outdir, "demo%s.py" % n)
    note = os.path.join(outdir, "note%s.txt" % n)
    tmp = tempfile.mkdtemp(prefix="seed_", dir="/tmp")
    meta = {"property": prop, "source": "fresh sub-agent given only the property text and a scratch worktree", "ran": []}
    try:
        clean, mut = os.path.join(tmp, "clean"), os.path.join(tmp, "mut")
        for d in (clean, mut):
            shutil.copytree("/repo", d, ignore=shutil.ignore_patterns(".git", "__pycache__", "*.pyc", "out"))
        rc, out = sh("git apply --whitespace=nowarn %s" % diff, cwd=mut)
        if rc != 0:
            print("PATCH-DOES-NOT-APPLY", out[-500:]); return 2
        os.makedirs(os.path.join(clean, "out")); os.makedirs(os.path.join(mut, "out"))
        shutil.copy(demo, os.path.join(clean, "out", "demo.py")); shutil.copy(demo, os.path.join(mut, "out", "demo.py"))
        rc_clean, o1 = sh("/venv/bin/python -W ignore out/demo.py", cwd=clean)
        rc_mut, o2 = sh("/venv/bin/python -W ignore out/demo.py", cwd=mut)
        rc, suite = sh("/venv/bin/python -m pytest -q -p no:cacheprovider --continue-on-collection-errors 2>&1 | tail -1", cwd=mut)
        suite = suite.strip()
        meta["ran"] += ["demo on clean copy: exit %d" % rc_clean, "demo on patched copy: exit %d" % rc_mut, "pinned suite on patched copy: %s" % suite]
        confirmed = rc_clean == 0 and rc_mut == 1 and "416 passed" in suite and "21 failed" in suite
        print("demo clean=%d patched=%d suite=[%s] confirmed=%s" % (rc_clean, rc_mut, suite, confirmed))
        if rc_mut != 1:
            print(o2[-600:])
        results = {}
        for cid in [prop] + extra:
            env = dict(os.environ, VERIF_REPO=mut, VERIF_EVIDENCE_DIR=os.path.join(tmp, "ev"), VERIF_OUT_DIR=os.path.join(tmp, "vout"))
            rc, out = sh("/verif/check %s --tier quick" % cid, env=env)
            tags = sorted(set(l.split()[1].rstrip(":") for l in out.splitlines() if l.startswith("  finding")))
            line = [l for l in out.splitlines() if l.startswith(cid + " tier")]
            results[cid] = {"exit": rc, "tags": tags, "summary": line[0] if line else out[-300:]}
            print("  %s exit=%d %s %s" % (cid, rc, tags, line[0] if line else ""))
            meta["ran"].append("./check %s --tier quick against the patched copy: exit %d %s" % (cid, rc, ",".join(tags)))
        meta["detected_by"] = [c for c, r in results.items() if r["exit"] == 1]
        meta["confirmed"] = confirmed
        if confirmed:
            tag = "%s-%s-%s%s" % (prop, os.path.basename(os.path.dirname(os.path.abspath(outdir))), os.environ.get("SEED_ROUND", ""), n)
            dst = os.path.join("/verif/seeded", tag)
            os.makedirs(dst, exist_ok=True)
            shutil.copy(diff, os.path.join(dst, "patch.diff")); shutil.copy(demo, os.path.join(dst, "demo.py"))
            if os.path.exists(note):
                shutil.copy(note, os.path.join(dst, "note.txt"))
                meta["needs"] = open(note).read().strip()
            json.dump(meta, open(os.path.join(dst, "meta.json"), "w"), indent=1)
            print("  stored", dst)
        return 0
    finally:
        shutil.rmtree(tmp, ignore_errors=True)

sys.exit(main())
