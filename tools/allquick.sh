#!/bin/sh
# runs every quick check once at the given seed (default 1), 4 at a time; prints summary lines
seed=${1:-1}
cd /verif
ls props/c*.py | sed 's/.*\/c\([0-9]*\).py/C\1/' | xargs -P 5 -I{} sh -c "VERIF_SEED=$seed VERIF_EVIDENCE_DIR=\${EVD:-/verif/evidence} ./check {} --tier quick 2>&1 | grep -E 'tier=|VIOLATION|finding|HARNESS' | cut -c1-220 | sed 's/^/[{} seed $seed] /'"
