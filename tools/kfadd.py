#!/venv/bin/python
"""tools/kfadd.py <id> <property> <status> <commit|-> <reproducer> <where> <what...>"""
import json, sys
p = "/verif/known_findings.json"
d = json.load(open(p))
i, prop, status, commit, repro, where = sys.argv[1:7]
what = " ".join(sys.argv[7:])
e = {"id": i, "property": prop, "status": status, "where": where, "reproducer": repro}
if status == "fixed":
    e["commit"] = commit
    e["what"] = "fixed: property=%s %s %s" % (prop, commit, what)
else:
    e["what"] = what
d["findings"] = [x for x in d["findings"] if x["id"] != i] + [e]
json.dump(d, open(p, "w"), indent=1)
print("ok", i)
