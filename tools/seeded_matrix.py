#!/venv/bin/python
"""Detection matrix of the stored seeded changes: for every /verif/seeded/<id>/patch.diff apply it to a scratch copy of
/repo and run quick checks at the given seeds.

usage: tools/seeded_matrix.py [--only SUBSTR[,SUBSTR...]] [--checks C01,C03] [--jobs N] [seed ...]   (default seeds 1 2 3)

Without --checks each change is run against the check of the property it was written for."""
import json, os, shutil, subprocess, sys, tempfile
from concurrent.futures import ThreadPoolExecutor

args = sys.argv[1:]
only, checks, jobs = None, None, 8
while args and args[0].startswith("--"):
    opt = args.pop(0)
    val = args.pop(0)
    if opt == "--only":
        only = val.split(",")
    elif opt == "--checks":
        checks = val.split(",")
    elif opt == "--jobs":
        jobs = int(val)
SEEDS = args or ["1", "2", "3"]
ROOT = "/verif/seeded"


def one(name):
    d = os.path.join(ROOT, name)
    meta = json.load(open(os.path.join(d, "meta.json")))
    props = checks or [meta["property"]]
    tmp = tempfile.mkdtemp(prefix="sm_", dir="/tmp")
    try:
        mut = os.path.join(tmp, "repo")
        shutil.copytree("/repo", mut, ignore=shutil.ignore_patterns(".git", "__pycache__", "*.pyc"))
        p = subprocess.run("git apply --whitespace=nowarn %s" % os.path.join(d, "patch.diff"), shell=True, cwd=mut, capture_output=True, text=True)
        if p.returncode:
            return name, ["patch-error"]
        res = []
        for prop in props:
            for s in SEEDS:
                env = dict(os.environ, VERIF_REPO=mut, VERIF_SEED=s, VERIF_EVIDENCE_DIR=os.path.join(tmp, "ev"), VERIF_OUT_DIR=os.path.join(tmp, "out"))
                p = subprocess.run(["/verif/check", prop, "--tier", "quick"], env=env, capture_output=True, text=True)
                tags = sorted(set(l.split()[1].rstrip(":") for l in p.stdout.splitlines() if l.startswith("  finding")))
                res.append("%s@%s:%s%s" % (prop, s, {0: "MISS", 1: "hit", 2: "ERR"}.get(p.returncode, "ERR"), ("(" + ",".join(tags[:2]) + ")") if tags else ""))
        return name, res
    finally:
        shutil.rmtree(tmp, ignore_errors=True)


names = sorted(n for n in os.listdir(ROOT) if os.path.exists(os.path.join(ROOT, n, "patch.diff")))
if only:
    names = [n for n in names if any(o in n for o in only)]
with ThreadPoolExecutor(jobs) as ex:
    for name, res in ex.map(one, names):
        print("%-16s %s" % (name, "  ".join(res)))
        sys.stdout.flush()
