#!/venv/bin/python
"""Detection matrix of the stored seeded changes: for every /verif/seeded/<id>/patch.diff apply it to a scratch copy of
/repo and run the property's quick check at the given seeds.  usage: tools/seeded_matrix.py [seed ...]   (default 1 2 3)"""
import json, os, shutil, subprocess, sys, tempfile
from concurrent.futures import ThreadPoolExecutor

SEEDS = sys.argv[1:] or ["1", "2", "3"]
ROOT = "/verif/seeded"


def one(name):
    d = os.path.join(ROOT, name)
    meta = json.load(open(os.path.join(d, "meta.json")))
    prop = meta["property"]
    tmp = tempfile.mkdtemp(prefix="sm_", dir="/tmp")
    try:
        mut = os.path.join(tmp, "repo")
        shutil.copytree("/repo", mut, ignore=shutil.ignore_patterns(".git", "__pycache__", "*.pyc"))
        p = subprocess.run("git apply --whitespace=nowarn %s" % os.path.join(d, "patch.diff"), shell=True, cwd=mut, capture_output=True, text=True)
        if p.returncode:
            return name, prop, ["patch-error"]
        res = []
        for s in SEEDS:
            env = dict(os.environ, VERIF_REPO=mut, VERIF_SEED=s, VERIF_EVIDENCE_DIR=os.path.join(tmp, "ev"), VERIF_OUT_DIR=os.path.join(tmp, "out"))
            p = subprocess.run(["/verif/check", prop, "--tier", "quick"], env=env, capture_output=True, text=True)
            res.append({0: "MISS", 1: "hit", 2: "ERR"}[p.returncode])
        return name, prop, res
    finally:
        shutil.rmtree(tmp, ignore_errors=True)


names = sorted(n for n in os.listdir(ROOT) if os.path.exists(os.path.join(ROOT, n, "patch.diff")))
with ThreadPoolExecutor(8) as ex:
    for name, prop, res in ex.map(one, names):
        print("%-14s %s  %s" % (name, prop, " ".join(res)))
