#!/bin/sh
# runs every thorough check once at the given seed (default 1), sequentially (each uses 16 processes); summary lines only
seed=${1:-1}
for id in C01 C02 C03 C04 C05 C06 C07 C08 C09 C10 C11 C12 C13 C14 C15 C16 C17 C18 C19 C20; do
  VERIF_SEED=$seed ./check $id --tier thorough 2>&1 | grep -E "tier=|VIOLATION|finding|HARNESS" | cut -c1-300 | sed "s/^/[seed $seed] /"
done
