#!/bin/sh
# usage: tools/thorough_seeds.sh <id> <seeds...> : one property's thorough check at several seeds
id=$1; shift
for s in "$@"; do sh tools/thorough_some.sh $s $id; done
