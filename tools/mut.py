#!/venv/bin/python
"""Sensitivity helper: apply a textual mutation to a scratch copy of /repo, optionally run the
pinned suite there, run one or more quick checks against it (VERIF_REPO), clean up.

usage: tools/mut.py [--suite] [--tier quick] <file-relative-to-package> <old> <new> <ID> [<ID>...]
"""
import os, shutil, subprocess, sys, tempfile

def main():
    args = sys.argv[1:]
    suite = False
    tier = "quick"
    while args and args[0].startswith("--"):
        if args[0] == "--suite":
            suite = True; args = args[1:]
        elif args[0] == "--tier":
            tier = args[1]; args = args[2:]
    rel, old, new = args[0], args[1], args[2]
    ids = args[3:]
    tmp = tempfile.mkdtemp(prefix="mut_", dir="/tmp")
    try:
        dst = os.path.join(tmp, "repo")
        shutil.copytree("/repo", dst, ignore=shutil.ignore_patterns(".git", "__pycache__", "*.pyc"))
        path = os.path.join(dst, "octoprint_excluderegion", rel)
        src = open(path, newline="").read()
        if src.count(old) != 1:
            print("MUTATION-ERROR: pattern occurs %d times" % src.count(old)); return 2
        open(path, "w", newline="").write(src.replace(old, new))
        if suite:
            p = subprocess.run("cd %s && /venv/bin/python -m pytest -q -p no:cacheprovider --continue-on-collection-errors 2>&1 | tail -1" % dst, shell=True, capture_output=True, text=True)
            print("suite:", p.stdout.strip())
        rc = 0
        for i in ids:
            env = dict(os.environ, VERIF_REPO=dst, VERIF_EVIDENCE_DIR=os.path.join(tmp, "ev"), VERIF_OUT_DIR=os.path.join(tmp, "out"))
            p = subprocess.run(["/verif/check", i, "--tier", tier], env=env, capture_output=True, text=True)
            tail = [l for l in p.stdout.splitlines() if l.startswith(("VIOLATION", "HARNESS", "  finding", i))]
            print("%s exit=%d\n  %s" % (i, p.returncode, "\n  ".join(tail[:6])))
            if p.returncode == 2: print(p.stdout[-2000:], p.stderr[-2000:])
            rc = rc or p.returncode
        return rc
    finally:
        shutil.rmtree(tmp, ignore_errors=True)

sys.exit(main())
