"""Mutants for the sensitivity protocol: (name, file, old, new, [checks expected to detect])."""
S = "ExcludeRegionState.py"
H = "GcodeHandlers.py"
MUTANTS = [
    ("rect_open_border", "RectangularRegion.py", "(x >= self.x1)", "(x > self.x1)", ["C01", "C17"]),
    ("circ_open_border", "CircularRegion.py", "return self.r >= math.hypot", "return self.r > math.hypot", ["C01", "C17"]),
    ("no_excluding_false_at_exit", S, "        self.excluding = False\n\n        # Moving back", "        self.excluding = self.excluding\n\n        # Moving back", ["C01", "C03"]),
    ("exit_swap_xy", S, "x=formatNumber(self.position.X_AXIS.nativeToLogical()),\n                y=formatNumber(self.position.Y_AXIS.nativeToLogical())", "x=formatNumber(self.position.Y_AXIS.nativeToLogical()),\n                y=formatNumber(self.position.X_AXIS.nativeToLogical())", ["C03", "C01"]),
    ("exit_drop_g92e", S, "            # Set logical extruder position\n            \"G92 E{e}\".format(e=formatNumber(self.position.E_AXIS.nativeToLogical()))\n        )\n\n        # The re-pos", "            \"M400\"\n        )\n\n        # The re-pos", ["C04"]),
    ("z_order_inverted", S, "if (nativeNewZ > nativeOldZ):", "if (nativeNewZ < nativeOldZ and False):", ["C03"]),
    ("z_order_swapped", S, "if (nativeNewZ < nativeOldZ):\n            # Move Z axis _down_", "if (nativeNewZ <= nativeOldZ and False):\n            # Move Z axis _down_", ["C03"]),
    ("allowcombine_not_cleared", S, "            self.lastRetraction.allowCombine = False\n", "            pass\n", ["C05", "C04"]),
    ("recoverExcluded_never_set", S, "                    self.lastRetraction.recoverExcluded = True", "                    self.lastRetraction.recoverExcluded = False", ["C05", "C04"]),
    ("recoverExcluded_not_cleared", S, "            self.lastRetraction.recoverExcluded = False\n            if (not self.lastRetraction.firmwareRetract):", "            if (not self.lastRetraction.firmwareRetract):", ["C05", "C04"]),
    ("g10_ignores_PL", H, "            if (label in (\"P\", \"L\")):\n                return None", "            if (label in (\"Q\",)):\n                return None", ["C02", "C05"]),
    ("inch_factor", H, "INCH_TO_MM_FACTOR = 25.4", "INCH_TO_MM_FACTOR = 2.54", ["C01", "C03", "C08"]),
    ("undo_D1", S, "                self.lastPosition = priorPosition", "                pass", ["C03"]),
    ("undo_D2", S, "        if (relativeMode):\n            returnCommands.append(\"G90\")", "        if (relativeMode and False):\n            returnCommands.append(\"G90\")", ["C03"]),
    ("undo_D3", S, "for index in range(0, len(xyPairs), 2):\n            x = xAxis.setLogicalPosition", "for index in range(0, len(xyPairs) if (self._exclusionEnabled) else 0, 2):\n            x = xAxis.setLogicalPosition", ["C14", "C01"]),
    ("undo_D4", S, "if (not anyExcluded and self._exclusionEnabled and self.isPointExcluded(x, y)):\n                anyExcluded = True", "if (self._exclusionEnabled and self.isPointExcluded(x, y)):\n                return True", ["C03"]),
    ("undo_D10", S, "            eAxis.current = priorE\n            try:\n                returnCommands = self.recoverRetractionIfNeeded(cmd, False)", "            try:\n                returnCommands = self.recoverRetractionIfNeeded(cmd, False)", ["C04"]),
    ("undo_D14", S, "            if (not returnCommands and not self.excluding):", "            if (not returnCommands and not self.excluding and False):", ["C04", "C05"]),
    ("undo_D15", S, "        nativeNewZ = self.position.Z_AXIS.current\n        nativeOldZ = self.lastPosition.Z_AXIS.current", "        nativeNewZ = newZ\n        nativeOldZ = self.lastPosition.Z_AXIS.nativeToLogical()", ["C03"]),
    ("retract_first_in_episode_dropped", S, "                returnCommands = retract.generateRetractCommands(self.position)\n            else:\n                returnCommands.append(retract.originalCommand)\n        elif (self.lastRetraction.recoverExcluded):", "                returnCommands = []\n            else:\n                returnCommands.append(retract.originalCommand)\n        elif (self.lastRetraction.recoverExcluded):", ["C05"]),
    ("excluded_move_forward_z", S, "        if (finalZ is not None):\n            self.position.Z_AXIS.setLogicalPosition(finalZ)\n            isMove = True", "        if (finalZ is not None):\n            self.position.Z_AXIS.setLogicalPosition(finalZ)\n            isMove = not self.excluding", ["C01", "C03"]),
    ("recover_cmd_forwarded_in_episode", S, "                if (isRecoveryCommand):\n                    self.lastRetraction.recoverExcluded = True", "                if (isRecoveryCommand):\n                    returnCommands = [cmd]", ["C01", "C05"]),
]
