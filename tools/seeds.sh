#!/bin/sh
# usage: tools/seeds.sh <tier> <seeds...> -- <ids...> : runs checks at several seeds, prints summary lines only
tier=$1; shift
seeds=""
while [ "$1" != "--" ]; do seeds="$seeds $1"; shift; done; shift
for s in $seeds; do for id in "$@"; do
  VERIF_SEED=$s VERIF_EVIDENCE_DIR=/tmp/seeds_ev VERIF_OUT_DIR=out ./check $id --tier $tier 2>&1 | grep -E "tier=|VIOLATION|finding|HARNESS|KNOWN" | sed "s/^/[seed $s] /"
done; done
