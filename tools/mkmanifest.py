#!/venv/bin/python
"""Regenerate MANIFEST.json from the per-property table below (keeps it valid at all times)."""
import json, os, sys
HERE = os.path.dirname(os.path.dirname(os.path.abspath(__file__)))
sys.path.insert(0, HERE)
from tools.manifest_table import CHECKS, NOT_APPLICABLE, NOTES

def main():
    checks = []
    for c in CHECKS:
        pid = c["id"]
        checks.append({
            "property_id": pid,
            "quick_cmd": "./check %s --tier quick" % pid,
            "thorough_cmd": "./check %s --tier thorough" % pid,
            "evidence_file": "/verif/evidence/%s.json" % pid,
            "replay_cmd_template": "./check %s --replay {path}" % pid,
            "engine": c.get("engine", "hypothesis" if c["id"] in ("C11", "C12", "C13") else "hypothesis+atheris"),
            "level_claimed": {"category": "exploration", "text": c["level_text"], "design_ref": c["design_ref"]},
            "level_note": c["level_note"],
            "technique": c["technique"],
        })
    man = {
        "version": 1,
        "setup_cmd": "/venv/bin/python -c 'import hypothesis' 2>/dev/null || /venv/bin/pip install -q --no-index --find-links /opt/veriftools/wheels --target /verif/.deps hypothesis sortedcontainers attrs; /venv/bin/python -c 'import atheris' 2>/dev/null || /venv/bin/pip install -q --no-index --find-links /opt/veriftools/wheels --target /verif/.deps atheris || true",
        "hooks": {
            "guard": "EXCLUDEREGION_VERIF",
            "enable": "no source hooks are needed: every observation point is a public return value or an object the harness supplies; checks import /repo's working tree directly (sys.path), nothing is built",
            "baseline_off_cmd": "cd /repo && /venv/bin/python -m pytest -ra -q -p no:cacheprovider --timeout=900 --continue-on-collection-errors",
            "source_commits": [],
            "add_only": True,
        },
        "engines": [
            {"name": "hypothesis", "path": "/verif/vlib/runner.py", "serves_properties": [c["id"] for c in CHECKS],
             "kind_free_text": "property-based testing (Hypothesis 6.168: @given over generated programs/inputs, RuleBasedStateMachine for histories), explicit oracles (reference printer, reference models, exact arithmetic, differential twins, metamorphic relations), shrinking to JSON replay files"},
            {"name": "atheris", "path": "/verif/vlib/fuzz.py", "serves_properties": [c["id"] for c in CHECKS if c["id"] not in ("C11", "C12", "C13")],
             "kind_free_text": "coverage-guided fuzzing (libFuzzer via atheris 3.1) as secondary engine in the thorough tier: the property's own Hypothesis strategy (fuzz_one_input) or a hand-written data-provider decoder (C09, C18) turns bytes into cases, the oracle (run_case) runs inside the target; optional - evidence records atheris_available / atheris_execs"},
        ],
        "checks": checks,
        "notes": NOTES,
        "not_applicable": NOT_APPLICABLE,
    }
    with open(os.path.join(HERE, "MANIFEST.json"), "w") as fh:
        json.dump(man, fh, indent=1)
        fh.write("\n")
    try:
        import jsonschema
        jsonschema.validate(man, json.load(open("/root/.vp/MANIFEST.schema.json")))
        print("MANIFEST.json valid:", len(checks), "checks,", len(NOT_APPLICABLE), "not applicable")
    except ImportError:
        print("written (jsonschema not available to validate)")

main()
