#!/venv/bin/python
"""Sensitivity protocol: apply each textual mutant to a scratch copy of /repo (under /tmp, removed
afterwards), check that the pinned suite still passes there (416 passed), run the listed quick
checks against it and report which detect it.

usage: tools/mutants.py [name-substring ...]      (runs 8 mutants in parallel)
"""
import json, os, shutil, subprocess, sys, tempfile
from concurrent.futures import ThreadPoolExecutor
HERE = os.path.dirname(os.path.abspath(__file__))
sys.path.insert(0, os.path.dirname(HERE))
from tools.mutant_table import MUTANTS


def run_one(m):
    name, rel, old, new, ids = m
    tmp = tempfile.mkdtemp(prefix="mut_", dir="/tmp")
    try:
        dst = os.path.join(tmp, "repo")
        shutil.copytree("/repo", dst, ignore=shutil.ignore_patterns(".git", "__pycache__", "*.pyc"))
        path = os.path.join(dst, "octoprint_excluderegion", rel)
        src = open(path, newline="").read()
        old2 = old.replace("\n", "\r\n")
        new2 = new.replace("\n", "\r\n")
        if src.count(old2) != 1:
            return name, "MUTATION-ERROR pattern occurs %d times" % src.count(old2), {}
        open(path, "w", newline="").write(src.replace(old2, new2))
        p = subprocess.run("cd %s && /venv/bin/python -m pytest -q -p no:cacheprovider --continue-on-collection-errors 2>&1 | tail -1" % dst,
                           shell=True, capture_output=True, text=True)
        suite = p.stdout.strip()
        res = {}
        for i in ids:
            env = dict(os.environ, VERIF_REPO=dst, VERIF_EVIDENCE_DIR=os.path.join(tmp, "ev"), VERIF_OUT_DIR=os.path.join(tmp, "out"))
            p = subprocess.run(["/verif/check", i, "--tier", "quick"], env=env, capture_output=True, text=True)
            line = [l for l in p.stdout.splitlines() if l.startswith(i + " tier")]
            evals = line[0].split("evaluations=")[1].split()[0] if line else "?"
            tags = sorted(set(l.split()[1].rstrip(":") for l in p.stdout.splitlines() if l.startswith("  finding")))
            res[i] = {"exit": p.returncode, "evals": evals, "tags": tags}
            if p.returncode == 2:
                res[i]["err"] = (p.stdout + p.stderr)[-1500:]
        return name, suite, res
    finally:
        shutil.rmtree(tmp, ignore_errors=True)


def main():
    sel = sys.argv[1:]
    todo = [m for m in MUTANTS if not sel or any(s in m[0] for s in sel)]
    with ThreadPoolExecutor(8) as ex:
        for name, suite, res in ex.map(run_one, todo):
            ok = "416 passed" in suite
            print("%-34s suite[%s] %s" % (name, "ok" if ok else suite, " ".join(
                "%s:%s(%s%s)" % (i, {0: "MISSED", 1: "caught", 2: "ERROR"}[r["exit"]], r["evals"], "" if not r["tags"] else " " + ",".join(r["tags"])) for i, r in res.items())))
            for i, r in res.items():
                if r.get("err"):
                    print(r["err"])

main()
