#!/venv/bin/python
"""Print a replay file with the trace: tools/show.py <file>"""
import sys, json
sys.path.insert(0, "/verif")
from vlib import env, core
d = json.load(open(sys.argv[1])); c = d.get("case", d)
print("config", c.get("config")); print("regions", c.get("regions")); print("meta", c.get("meta"))
tr = core.run(c)
for it in tr.items:
    flags = ("O" if it.opening else "") + ("C" if it.closing else "") + ("w" if it.open_before else "")
    print("%3d %-3s %-34s cls=%-4s -> %s %s" % (it.idx, flags, it.item[1:] if it.kind != "g" else it.cmd, it.cls, it.out, it.exception or ""))
for f in d.get("findings", []): print(f)
