#!/bin/sh
# usage: tools/thorough_some.sh <seed> <ids...> : the thorough checks of the given properties, one after the other; summary lines only
seed=$1; shift
for id in "$@"; do
  VERIF_SEED=$seed VERIF_EVIDENCE_DIR=/tmp/thorough_ev VERIF_OUT_DIR=out ./check $id --tier thorough 2>&1 | grep -E "tier=|VIOLATION|finding|HARNESS|KNOWN" | cut -c1-300 | sed "s/^/[seed $seed] /"
done
