"""C01 - No motion into and no extrusion inside an excluded region.

Generated programs (full C01 dialect, region additions interleaved) are run through the filter;
the forwarded stream is executed on the reference printer and checked against the geometric
episode oracle computed from the unfiltered execution."""
from vlib import env, core, gen, asserts, printer, gread  # noqa: F401

ID = "C01"
BUDGET = {"quick": 2000, "thorough": 25000}
PROFILE = gen.profile(retract="wild")
RULE = ("Hypothesis draws a configuration (G90-influences-extruder, enter/exit scripts, extended-code modes, debug logging), "
        "0-3 rect/circle regions (off-grid borders, or exact on-grid borders), and 6-40 abstract ops (moves aimed at region "
        "interiors / just inside / just outside / exactly on borders / grid points, I-J arcs, matched and unmatched E-only and "
        "G10/G11 retractions, Slic3r-style retracting moves, G92 E, G20/G21, G90/G91, G28 outside episodes, extended and unknown "
        "codes, @-commands, region additions incl. one around the tool), rendered to text after G28. Non-trivial = at least one "
        "episode that contains a suppressed command and is later closed. Distinct by SHA-1 of the concrete case.")
ASSUMPTIONS = [
    "reference printer (vlib/printer.py) models Marlin 1.1.x semantics of the documented dialect",
    "episode oracle: destination IN/OUT with margin 0 in the trivial frame (mm, absolute, no shift) and 1e-6 mm otherwise; cases are truncated at the first destination within the margin of a border",
    "arcs: I/J form in absolute positioning only (R form and arcs under G91 are excluded: open findings KF-C16-RCENTRE / KF-C01-ARC-G91)",
    "G28, G92 X/Y/Z and M206 are never issued while an episode is open; enter scripts contain only non-motion lines",
]


def strategy(tier):
    # thorough tier: programs of up to 100 ops (quick: 40)
    return gen.cases(dict(PROFILE, maxlen=100, long=15) if tier == "thorough" else PROFILE)


def run_case(case, strict=False):  # pylint: disable=unused-argument
    tr = core.run(case)
    findings = asserts.c01(tr)
    cl, nontrivial = asserts.classes(tr, case)
    return findings, {"nontrivial": nontrivial, "classes": sorted(cl), "truncated": tr.truncated, "excluded_known": case.get("meta", {}).get("excluded_known", 0),
                      "sample": {"regions": case["regions"], "config": case["config"],
                                 "prog": [i[1] if i[0] == "g" else i for i in case["prog"]]}}


def selftest():
    printer.selftest()
    gread.selftest()
