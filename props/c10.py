"""C10 - Every print starts from a clean tracking state (differential: used plugin vs fresh plugin)."""
import copy

from hypothesis import strategies as st

from vlib import env, core, gen, asserts, printer, gread, geom, plugin_harness  # noqa: F401
from vlib.plugin_harness import Harness

ID = "C10"
BUDGET = {"quick": 1200, "thorough": 10000}
PROFILE = gen.profile(retract="wild", reg_events=False, maxlen=25, ext_w=3, e_rel_ok=True)
RULE = ("A prior history on plugin A (events incl. aborted prints, G-code through the hooks: moves into regions, G20, G91, "
        "G92 X/Y/Z/E, M206, unmatched retractions, deferred codes inside an episode; disable @-commands; API add/update/delete; "
        "settings updates), then PRINT_STARTED, then a generated program (homed or un-homed) incl. @-commands and script hooks. "
        "Plugin B is freshly initialised with A's current settings and copies of A's current regions and receives PRINT_STARTED "
        "and the same program; all hook results, commands sent and exception types must be identical. Non-trivial = just before "
        "PRINT_STARTED A differed from a fresh state in at least one per-print field. Distinct by SHA-1 of the concrete case.")
ASSUMPTIONS = [
    "exceptions raised by a hook (e.g. relative move before homing) are caught as OctoPrint does and compared by type",
    "region ids are preserved when copying A's regions into B; settings are copied verbatim",
]

EVENTS = ["PRINT_STARTED", "PRINT_PAUSED", "PRINT_RESUMED", "PRINT_DONE", "PRINT_FAILED", "PRINT_CANCELLING", "PRINT_CANCELLED",
          "ERROR", "FILE_SELECTED", "CONNECTED", "SETTINGS_UPDATED"]
HIST_G = ["G28", "G28 X", "G20", "G21", "G91", "G90", "G92 X5 Y5", "G92 Z2", "G92 E3", "M206 X2 Y-1", "G1 E-1 F1800", "G1 E-0.5",
          "G10", "G10 S1", "G11", "M117 history", "M204 S5", "M205 X3", "M73 P10", "G4 P5", "G1 F4800", "G1 Z3", "G1 X2 Y2 E5",
          "G1 X50 Y50", "G0 X1 Y1 F600"]


@st.composite
def cases(draw):
    base = draw(gen.cases(PROFILE))
    regions = base["regions"]
    hist = []
    if draw(st.integers(0, 9)) > 0:
        hist += [["event", "PRINT_STARTED"], ["g", "G28"], ["g", "G1 X1 Y1 Z0.2 F3000"]]
    rnd = gen.Renderer({}, regions, PROFILE, 0.508, False, False)
    n = draw(st.integers(0, 14))
    for _ in range(n):
        k = draw(st.sampled_from(["g"] * 5 + ["in"] * 4 + ["event"] * 2 + ["at", "api", "settings"]))
        if k == "g":
            hist.append(["g", draw(st.sampled_from(HIST_G))])
        elif k == "in":
            tx, ty = rnd.target("in", draw(st.integers(0, 3)), draw(st.integers(0, 100)), draw(st.integers(0, 100)))
            hist.append(["g", "G1 X%s Y%s%s" % (gen.fmt(tx), gen.fmt(ty), draw(st.sampled_from(["", "", " E-1", " E3", " Z2"])))])
        elif k == "event":
            hist.append(["event", draw(st.sampled_from(EVENTS))])
        elif k == "at":
            hist.append(["at", "ExcludeRegion", draw(st.sampled_from(["off", "on", "disable", "foo"]))])
        elif k == "api":
            what = draw(st.sampled_from(["add", "delete", "update"]))
            if what == "add" or not regions:
                reg = draw(gen.region(draw(st.integers(4, 9)), False))
                hist.append(["api", "addExcludeRegion", to_api(reg)])
            elif what == "delete":
                hist.append(["api", "deleteExcludeRegion", {"id": regions[draw(st.integers(0, len(regions) - 1))]["id"]}])
            else:
                reg = dict(regions[draw(st.integers(0, len(regions) - 1))])
                if reg["type"] == "rect":
                    x1, y1, x2, y2 = geom.norm_rect(reg)
                    reg.update(x1=x1 - 1, y1=y1 - 1, x2=x2 + 1, y2=y2 + 1)
                else:
                    reg["r"] += 1
                hist.append(["api", "updateExcludeRegion", to_api(reg)])
        else:
            hist.append(["settings", draw(st.sampled_from([
                {"clearRegionsAfterPrintFinishes": True}, {"clearRegionsAfterPrintFinishes": False},
                {"mayShrinkRegionsWhilePrinting": True}, {"g90e": True}, {"g90e": False},
                {"enteringExcludedRegionGcode": "M117 in"}, {"exitingExcludedRegionGcode": "M117 out\nM400"},
                {"extendedExcludeGcodes": [{"gcode": "M117", "mode": "first", "description": ""}, {"gcode": "M106", "mode": "merge", "description": ""}]},
                {"extendedExcludeGcodes": []}, {"extendedExcludeGcodes": [{"gcode": "G4", "mode": "exclude", "description": ""}]},
                {"atCommandActions": []}, {"enteringExcludedRegionGcode": None}, {"exitingExcludedRegionGcode": ""},
                {"atCommandActions": [{"command": "ExcludeRegion", "parameterPattern": "^off", "action": "disable_exclusion", "description": ""}]},
            ]))])
    if regions and draw(st.integers(0, 2)) == 0:
        # an aborted print by construction: deferred codes configured, tool inside a region, a few state-changing commands,
        # then (perhaps) an end event - every per-print field is dirty at the PRINT_STARTED that follows
        hist.append(["settings", {"extendedExcludeGcodes": [{"gcode": "M117", "mode": draw(st.sampled_from(["first", "last"])), "description": ""},
                                                             {"gcode": "M106", "mode": "merge", "description": ""}]}])
        if not any(h == ["event", "PRINT_STARTED"] for h in hist) or draw(st.booleans()):
            hist += [["event", "PRINT_STARTED"]]
        hist += [["g", "G28"], ["g", "G1 X1 Y1 Z0.2 F3000"]]
        rsel = draw(st.integers(0, 3))
        tx, ty = rnd.target("in", rsel, draw(st.integers(0, 100)), draw(st.integers(0, 100)))
        hist.append(["g", "G1 X%s Y%s" % (gen.fmt(tx), gen.fmt(ty))])
        for _ in range(draw(st.integers(1, 5))):
            hist.append(draw(st.sampled_from([["g", "M117 left over"], ["g", "M106 S99"], ["g", "G10"], ["g", "G1 E-1 F1800"], ["g", "G20"],
                                              ["g", "G91"], ["g", "G1 E2"], ["g", "G11"], ["at", "ExcludeRegion", "off"], ["g", "G92 E7"],
                                              ["g", "G1 Z4"], ["g", "M206 X3"], ["g", "G1 F7200"]])))
        tail = draw(st.sampled_from([None, None, "PRINT_FAILED", "PRINT_CANCELLED", "PRINT_DONE", "ERROR", "PRINT_PAUSED", "FILE_SELECTED"]))
        if tail:
            hist.append(["event", tail])
        if tail in ("PRINT_FAILED", "PRINT_CANCELLED", "PRINT_DONE", "ERROR") and draw(st.booleans()):
            # between the prints the user moves the region the tool was in (or shrinks it to a sliver) - the next print
            # passes over its old location
            moved = dict(regions[rsel % len(regions)])
            if moved["type"] == "rect":
                x1, y1, x2, y2 = geom.norm_rect(moved)
                moved.update(x1=x1 + 30, x2=x2 + 30) if draw(st.booleans()) else moved.update(x2=x1 + 0.01, y2=y1 + 0.01)
            else:
                moved.update(cx=moved["cx"] + 30) if draw(st.booleans()) else moved.update(r=0.01)
            hist.append(["api", "updateExcludeRegion", to_api(moved)])
        if draw(st.integers(0, 2)) == 0:
            # a settings save that changes nothing but the global 'G90 influences extruder' flag
            hist.append(["settings", {"g90e": not bool(base["config"].get("g90e"))}])
    prog = list(base["prog"])
    if draw(st.integers(0, 2)) == 0 and len(prog) > 1 and prog[1] == ["g", "G1 X1 Y1 Z0.2 F3000"]:
        prog[1] = ["g", "G1 X1 Y1 Z0.2"]      # no feed rate given before the first exit: exposes a stale one
    if regions and len(prog) > 2 and draw(st.integers(0, 3)) == 0:
        # the previous print (exclusion switched off) ended on the very commands this print begins with: anything remembered
        # about those points must not survive PRINT_STARTED.  The program then skips its positioning move.
        first = [it for it in prog[2:6] if it[0] == "g" and it[1].startswith(("G0 ", "G1 ")) and " X" in it[1] and " Y" in it[1]][:1]
        if first and prog[2] != ["g", "G20"]:
            tx, ty = rnd.target("in", draw(st.integers(0, 3)), draw(st.integers(0, 100)), draw(st.integers(0, 100)))
            into = ["g", "G1 X%s Y%s" % (gen.fmt(tx), gen.fmt(ty))]
            if draw(st.booleans()):
                prog = prog[:1] + [into] + prog[2:]
                first = [into]
            else:
                prog = prog[:1] + prog[2:]
            if not any(h == ["event", "PRINT_STARTED"] for h in hist):
                hist += [["event", "PRINT_STARTED"], ["g", "G28"]]
            hist += [["g", "G90"], ["g", "G21"], ["at", "ExcludeRegion", draw(st.sampled_from(["off", "off", "on"]))], first[0]]
            if draw(st.booleans()):
                hist.append(["event", draw(st.sampled_from(["PRINT_DONE", "PRINT_CANCELLED", "PRINT_FAILED"]))])
    if regions and draw(st.integers(0, 9)) == 0:
        # another file was selected (all regions gone) and the same number of regions was drawn again, elsewhere
        hist.append(["event", "FILE_SELECTED"])
        for reg in regions:
            moved = dict(reg)
            if moved["type"] == "rect":
                moved.update(x1=reg["x1"] + 21, x2=reg["x2"] + 21, y1=reg["y1"] + 17, y2=reg["y2"] + 17)
            else:
                moved.update(cx=reg["cx"] + 21, cy=reg["cy"] + 17)
            hist.append(["api", "addExcludeRegion", to_api(moved)])
    if draw(st.integers(0, 11)) == 0:
        # the very same file was printed before (to the end, or aborted), followed by a long stretch of other commands
        hist += [["event", "PRINT_STARTED"]] + [it for it in prog if it[0] in ("g", "at")]
        for n in range(draw(st.sampled_from([0, 150, 600]))):
            hist.append(["g", "G1 X%d.%02d Y%d" % (70 + n % 20, n % 100, 70 + n // 20)])
            if n % 4 == 1:
                hist.append(["g", "G2 X%d.%02d Y%d I%d.5 J0" % (73 + n % 20, n % 100, 70 + n // 20, 1 + n % 3)])
        hist.append(["event", draw(st.sampled_from(["PRINT_DONE", "PRINT_CANCELLED", "PRINT_FAILED"]))])
    others = [it for it in prog if it[0] == "g" and not it[1].startswith(("G0", "G1", "G2", "G3", "G9", "G28", "G20", "G21"))]
    if others and draw(st.integers(0, 4)) == 0:
        # the previous print sent, among its last commands, exactly what this print sends somewhere (M117 Layer 2, M204 S500 ...):
        # what the printer "already has" is no reason to treat the command differently in a new print
        hist += [["event", "PRINT_STARTED"], ["g", "G28"]]
        for _ in range(draw(st.integers(1, 3))):
            hist.append(others[draw(st.integers(0, len(others) - 1))])
        if draw(st.booleans()):
            hist.append(["event", draw(st.sampled_from(["PRINT_DONE", "PRINT_CANCELLED", "PRINT_FAILED"]))])
    if draw(st.integers(0, 5)) == 0:
        prog = prog[1:]          # un-homed program
    if draw(st.integers(0, 2)) == 0:
        prog.append(["hook", "gcode", "afterPrintDone"])
    return {"config": base["config"], "regions": regions, "history": hist, "prog": prog}


def to_api(reg):
    d = dict(reg)
    d["type"] = "RectangularRegion" if reg["type"] == "rect" else "CircularRegion"
    return d


def strategy(tier):
    return cases()


def apply(h, item):
    """Apply one item to a harness; returns an observation (results or exception type)."""
    try:
        k = item[0]
        if k == "g":
            return ["g", h.gcode_raw(item[1])]
        if k == "at":
            return ["at"] + list(h.at(item[1], item[2], item[3] if len(item) > 3 else False))
        if k == "hook":
            return ["hook", h.script(item[1], item[2])]
        if k == "event":
            h.event(item[1])
            return ["event"]
        if k == "api":
            return ["api", h.api(item[1], item[2])]
        if k == "settings":
            h.update_settings(**item[1])
            return ["settings"]
        if k == "reg":
            return ["api", h.api("addExcludeRegion", to_api(item[1]))]
    except Exception as exc:  # pylint: disable=broad-except
        return ["exception", type(exc).__name__]
    return ["?"]


PER_PRINT = ("pos", "feed", "enabled", "excluding", "retraction", "pending")


def run_case(case, strict=False):  # pylint: disable=unused-argument
    cfg = case["config"]
    a = Harness(cfg)
    for reg in case["regions"]:
        a.api("addExcludeRegion", to_api(reg))
    for item in case["history"]:
        apply(a, item)
    dirty = core.state_snapshot(a.state)
    fresh = core.state_snapshot(Harness(cfg).state)
    cl = set("dirty_" + k for k in PER_PRINT if dirty[k] != fresh[k])
    if a.plugin.isActivePrintJob:
        cl.add("history_ends_mid_print")
    # plugin B: fresh, same settings, same regions
    b = Harness(cfg, values=a.values, g90e=a.g90e)       # initialised with A's current settings: it never saw any others
    for reg in a.state.excludedRegions:
        b.state.addRegion(copy.deepcopy(reg))
    out = []
    seq = [["event", "PRINT_STARTED"]] + case["prog"]
    for idx, item in enumerate(seq):
        oa, ob = apply(a, item), apply(b, item)
        if oa != ob:
            out.append({"tag": "c10_differs", "at": idx, "msg": "item %d %r: used plugin gave %r, fresh plugin gave %r" % (idx, item, oa, ob)})
            break
        if oa[0] == "exception":
            cl.add("exception_" + oa[1])
    # (internal state is deliberately not compared: the property is about behaviour)
    return out, {"nontrivial": any(c.startswith("dirty_") for c in cl), "classes": sorted(cl),
                 "sample": {"history": case["history"], "prog": [i[1] if i[0] == "g" else i for i in case["prog"]][:25]}}


def selftest():
    plugin_harness.selftest()
