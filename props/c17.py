"""C17 - Region geometry is sound.

Generated: pairs of regions (all four type combinations) with parameters from dyadic, decimal
and wide-range float pools, plus probe points; oracle: exact rational arithmetic for
membership, corner-order invariance, and soundness of containsRegion against probe points and
an exact "stick-out" computation."""
from vlib import env, geom  # noqa: F401  (env first: sets sys.path)
from hypothesis import strategies as st

from octoprint_excluderegion.RectangularRegion import RectangularRegion
from octoprint_excluderegion.CircularRegion import CircularRegion

ID = "C17"
BUDGET = {"quick": 2500, "thorough": 25000}
RULE = ("Hypothesis draws two regions (rect/circle, all four type pairs) from dyadic (k/8), decimal (n/10) and "
        "wide-range (1e-9..1e9) float pools, incl. degenerate (zero width / r=0), touching, nested-by-construction "
        "and Pythagorean configurations, plus free probe points; derived probes (corners, cardinal points, pulled-in "
        "ring, interior grid) are added by the check. Non-trivial = containment reported for a non-identical pair, or "
        "a probe exactly on a border (closedness exercised), or probes on both sides of the outer region. Distinct by "
        "SHA-1 of the canonical case.")
ASSUMPTIONS = [
    "disc membership is compared with exact rational arithmetic outside a band of 8 ulp of the coordinate scale around the border; inside the band only exactly representable border points (dyadic cardinal points, Pythagorean points) are asserted",
    "containsRegion is checked for soundness only (reported containment implies point-wise containment up to 1e-12*scale); completeness is not part of the statement",
]


# ------------------------------------------------------------------ generators
dyadic = st.integers(-160, 160).map(lambda k: k / 8.0)
decimal_grid = st.integers(-1000, 1000).map(lambda n: n / 10.0)
wide = st.one_of(
    st.floats(min_value=-1e9, max_value=1e9, allow_nan=False, allow_infinity=False, allow_subnormal=False),
    st.floats(min_value=-1e-6, max_value=1e-6, allow_nan=False, allow_infinity=False, allow_subnormal=False),
)


def coord(pool):
    return {"d": dyadic, "g": decimal_grid, "w": wide}[pool]


def radius(pool):
    return st.one_of(coord(pool).map(abs), st.just(0.0)) if pool != "w" else st.one_of(
        st.floats(min_value=0, max_value=1e9, allow_nan=False, allow_subnormal=False),
        st.floats(min_value=0, max_value=1e-6, allow_nan=False, allow_subnormal=False))


@st.composite
def region(draw, pool):
    if draw(st.booleans()):
        return {"type": "rect", "x1": draw(coord(pool)), "y1": draw(coord(pool)),
                "x2": draw(coord(pool)), "y2": draw(coord(pool))}
    r = draw(radius(pool))
    if draw(st.integers(0, 30)) == 0:
        r = -r
    return {"type": "circ", "cx": draw(coord(pool)), "cy": draw(coord(pool)), "r": r}


@st.composite
def derived(draw, base, pool):
    """A second region built from `base`: identical, grown / shrunk by delta, circumscribed or
    inscribed shape of the other type, shifted."""
    delta = draw(st.sampled_from([0.0, 1e-9, 0.125, 0.5, 3.0, -1e-9, -0.125, -0.5]))
    kind = draw(st.sampled_from(["same", "grow", "circum", "inscr", "shift", "diag", "diag"]))
    if kind == "diag" and base["type"] == "circ" and base["r"] > 0:
        # inner disc offset diagonally, internally tangent to the rim up to delta (axis-extreme points are not the farthest ones)
        import math
        a = base["r"] * draw(st.sampled_from([0.1, 0.25, 0.5]))
        b = a * draw(st.sampled_from([1.0, -1.0, 0.5, 2.0]))
        return {"type": "circ", "cx": base["cx"] + a, "cy": base["cy"] + b, "r": max(0.0, base["r"] - math.hypot(a, b) + delta)}
    if kind == "diag":
        kind = "shift"
    if base["type"] == "rect":
        x1, y1, x2, y2 = geom.norm_rect(base)
        if kind in ("same", "grow", "shift"):
            sh = draw(coord(pool)) if kind == "shift" else 0.0
            d = delta if kind != "same" else 0.0
            return {"type": "rect", "x1": x1 - d + sh, "y1": y1 - d, "x2": x2 + d + sh, "y2": y2 + d}
        cx, cy = (x1 + x2) / 2, (y1 + y2) / 2
        if kind == "circum":
            import math
            return {"type": "circ", "cx": cx, "cy": cy, "r": math.hypot(x2 - cx, y2 - cy) + delta}
        return {"type": "circ", "cx": cx, "cy": cy, "r": max(0.0, min(x2 - x1, y2 - y1) / 2 + delta)}
    cx, cy, r = base["cx"], base["cy"], base["r"]
    if kind in ("same", "grow", "shift"):
        sh = draw(coord(pool)) if kind == "shift" else 0.0
        d = delta if kind != "same" else 0.0
        return {"type": "circ", "cx": cx + sh, "cy": cy, "r": r + d}
    if kind == "circum":
        return {"type": "rect", "x1": cx - r - delta, "y1": cy - r - delta, "x2": cx + r + delta, "y2": cy + r + delta}
    h = r * 0.7071067811865476 + delta
    return {"type": "rect", "x1": cx - h, "y1": cy - h, "x2": cx + h, "y2": cy + h}


PYTH = [(3, 4, 5), (5, 12, 13), (8, 15, 17), (7, 24, 25), (20, 21, 29)]


@st.composite
def cases(draw):
    pool = draw(st.sampled_from(["d", "d", "g", "w"]))
    a = draw(region(pool))
    b = draw(st.one_of(region(pool), derived(a, pool)))
    if draw(st.booleans()):
        a, b = b, a
    pts = draw(st.lists(st.tuples(coord(pool), coord(pool)), max_size=4))
    pyth = None
    if draw(st.integers(0, 3)) == 0:
        # a disc with dyadic centre and integer-scaled Pythagorean border points
        t = draw(st.sampled_from(PYTH))
        s = draw(st.sampled_from([0.25, 0.5, 1.0, 2.0, 8.0]))
        cx, cy = draw(dyadic), draw(dyadic)
        a = {"type": "circ", "cx": cx, "cy": cy, "r": t[2] * s}
        pyth = [[cx + sx * t[0] * s, cy + sy * t[1] * s] for sx in (-1, 1) for sy in (-1, 1)]
    return {"A": a, "B": b, "points": [list(p) for p in pts], "pyth": pyth,
            "order": draw(st.integers(0, 3)), "prime": draw(st.booleans()),
            "how": draw(st.sampled_from(["num", "num", "num", "str", "copy"]))}


def strategy(tier):
    return cases()


# ------------------------------------------------------------------ code under test adapters
HOW = {"how": "num"}       # how the constructor arguments are handed over in the current case: num | str | copy


def build(reg, order=0):
    how = HOW["how"]
    conv = (lambda v: repr(float(v))) if how == "str" else (lambda v: v)      # a REST client may post numbers as decimal strings
    if reg["type"] == "rect":
        xs = (reg["x1"], reg["x2"])
        ys = (reg["y1"], reg["y2"])
        if order & 1:
            xs = (xs[1], xs[0])
        if order & 2:
            ys = (ys[1], ys[0])
        obj = RectangularRegion(x1=conv(xs[0]), y1=conv(ys[0]), x2=conv(xs[1]), y2=conv(ys[1]), id="r")
        return RectangularRegion(obj) if how == "copy" else obj
    obj = CircularRegion(cx=conv(reg["cx"]), cy=conv(reg["cy"]), r=conv(reg["r"]), id="c")
    return CircularRegion(obj) if how == "copy" else obj


def is_dyadic_small(v):
    return abs(v) <= 64 and (v * 8.0) == int(v * 8.0)


def run_case(case, strict=False):  # pylint: disable=unused-argument,too-many-branches,too-many-locals
    findings = []
    classes = set()

    def bad(tag, msg):
        findings.append({"tag": tag, "msg": msg})

    A, B = case["A"], case["B"]
    HOW["how"] = case.get("how", "num")
    classes.add("args_" + HOW["how"])
    objA, objB = build(A), build(B)
    scale = geom.scale_of(A, B)
    pts = [tuple(p) for p in case["points"]]
    border_exact = 0
    for reg in (A, B):
        ex, ring = geom.probes(reg)
        pts += ex + ring
    on_both_sides = set()

    # (i)/(ii) membership equals the exact closed test
    for reg, obj in ((A, objA), (B, objB)):
        for (x, y) in pts:
            got = bool(obj.containsPoint(x, y))
            if reg["type"] == "rect":
                want = geom.exact_in_rect(reg, x, y)
                x1, y1, x2, y2 = geom.norm_rect(reg)
                if want and (x in (x1, x2) or y in (y1, y2)):
                    border_exact += 1
                if got != want:
                    bad("rect_membership", "rect %r point (%r,%r): got %s, exact %s" % (reg, x, y, got, want))
            else:
                tol = 8 * 2.3e-16 * (abs(x) + abs(y) + abs(reg["cx"]) + abs(reg["cy"]) + abs(reg["r"]))
                c = geom.exact_circle_cmp(reg, x, y, tol)
                if c != 0 and got != (c < 0):
                    bad("disc_membership", "disc %r point (%r,%r): got %s, exact side %s" % (reg, x, y, got, c))
            if reg is A:
                on_both_sides.add(got)
    # closedness on exactly representable border points of a disc
    for reg, obj in ((A, objA), (B, objB)):
        if reg["type"] == "circ" and reg["r"] >= 0 and all(is_dyadic_small(reg[k]) for k in ("cx", "cy", "r")):
            cx, cy, r = reg["cx"], reg["cy"], reg["r"]
            for (x, y) in ((cx + r, cy), (cx - r, cy), (cx, cy + r), (cx, cy - r)):
                border_exact += 1
                if not obj.containsPoint(x, y):
                    bad("disc_closed", "disc %r: cardinal border point (%r,%r) not contained" % (reg, x, y))
                classes.add("disc_cardinal_exact")
    if case.get("pyth"):
        classes.add("pythagorean")
        for (x, y) in case["pyth"]:
            border_exact += 1
            if not objA.containsPoint(x, y):
                bad("disc_closed", "disc %r: Pythagorean border point (%r,%r) not contained" % (A, x, y))
            # one grid step further out must be outside
            if objA.containsPoint(x + (0.125 if x >= A["cx"] else -0.125), y):
                bad("disc_membership", "disc %r: point beyond border (%r,%r)+-0.125 contained" % (A, x, y))

    # (iii) corner order invariance
    for reg in (A, B):
        if reg["type"] == "rect":
            ref = build(reg, 0)
            for order in (1, 2, 3):
                alt = build(reg, order)
                if (alt.x1, alt.y1, alt.x2, alt.y2) != (ref.x1, ref.y1, ref.x2, ref.y2):
                    bad("corner_order", "rect %r order %d normalises to %r" % (reg, order, (alt.x1, alt.y1, alt.x2, alt.y2)))
                if not (alt.x1 <= alt.x2 and alt.y1 <= alt.y2):
                    bad("corner_order", "rect %r order %d not normalised" % (reg, order))
                for (x, y) in pts[:12]:
                    if bool(alt.containsPoint(x, y)) != bool(ref.containsPoint(x, y)):
                        bad("corner_order", "rect %r order %d differs at (%r,%r)" % (reg, order, x, y))
            classes.add("rect_orders")

    # (iv) soundness of containsRegion, both directions of the pair, all orders of rect corners
    reported = False
    for outer, inner in ((A, B), (B, A)):
        oo = build(outer, case.get("order", 0))
        io = build(inner, 3 - case.get("order", 0))
        if case.get("prime"):
            # history on the outer object: it has already answered for another region of the same type and id (the region's
            # earlier geometry, before an update) that sits at its centre, and for that point
            if outer["type"] == "rect":
                ox1, oy1, ox2, oy2 = geom.norm_rect(outer)
                pcx, pcy = (ox1 + ox2) / 2, (oy1 + oy2) / 2
            else:
                pcx, pcy = outer["cx"], outer["cy"]
            primer = build({"type": "rect", "x1": pcx, "y1": pcy, "x2": pcx, "y2": pcy} if inner["type"] == "rect"
                           else {"type": "circ", "cx": pcx, "cy": pcy, "r": 0.0})
            oo.containsRegion(primer)
            oo.containsPoint(pcx, pcy)
            classes.add("outer_object_reused")
        rep = bool(oo.containsRegion(io))
        pair = "%s>%s" % (outer["type"], inner["type"])
        classes.add("pair:" + pair)
        if not rep:
            continue
        if outer != inner:
            reported = True
        classes.add("contain_reported:" + pair)
        so = geom.stickout(outer, inner)
        tol = 1e-12 * scale
        if so is not None and so > tol:
            bad("contain_unsound", "%r.containsRegion(%r) is True but inner sticks out by %s" % (outer, inner, so))
        ex, ring = geom.probes(inner)
        for (x, y) in ex:
            if io.containsPoint(x, y) and not oo.containsPoint(x, y):
                # exact probes use the very computation containsRegion is built from
                d = geom.signed_dist(outer, x, y)
                if d > tol:
                    bad("contain_unsound", "%r reported to contain %r but corner/cardinal (%r,%r) is outside by %r" % (outer, inner, x, y, d))
        for (x, y) in ring:
            if io.containsPoint(x, y) and not oo.containsPoint(x, y):
                d = geom.signed_dist(outer, x, y)
                if d > tol:
                    bad("contain_unsound", "%r reported to contain %r but probe (%r,%r) is outside by %r" % (outer, inner, x, y, d))

    degenerate = any((r["type"] == "rect" and (r["x1"] == r["x2"] or r["y1"] == r["y2"])) or
                     (r["type"] == "circ" and r["r"] <= 0) for r in (A, B))
    if degenerate:
        classes.add("degenerate")
    if border_exact:
        classes.add("border_exact")
    if reported:
        classes.add("containment_reported_nonidentical")
    nontrivial = reported or border_exact > 0 or len(on_both_sides) == 2
    return findings, {"nontrivial": nontrivial, "classes": sorted(classes)}


def selftest():
    r = {"type": "rect", "x1": 2.0, "y1": 3.0, "x2": 0.0, "y2": 1.0}
    assert geom.in_region(r, 0.0, 1.0) and geom.in_region(r, 2.0, 3.0) and not geom.in_region(r, 2.1, 3.0)
    c = {"type": "circ", "cx": 0.0, "cy": 0.0, "r": 5.0}
    assert geom.exact_circle_cmp(c, 3.0, 4.0, 0) == 0 and geom.exact_circle_cmp(c, 3.0, 4.5, 1e-9) == 1
    assert geom.stickout(c, {"type": "rect", "x1": -3.0, "y1": -4.0, "x2": 3.0, "y2": 4.0}) == 0
    assert geom.stickout(r, c) > 0
