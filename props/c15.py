"""C15 - A print that ends while excluding is cleaned up exactly once (script hook)."""
from hypothesis import strategies as st

from vlib import env, core, gen, asserts, printer, gread, geom, plugin_harness  # noqa: F401
from vlib.core import X, Y, Z, E, ABS, U
from vlib.printer import close
from props import c06

ID = "C15"
BUDGET = {"quick": 1500, "thorough": 12000}
PROFILE = gen.profile(retract="matched", home_mid=True, arcs=1, ext_w=5, at_w=1, maxlen=30)
RULE = ("A C03/C06-style program (default or generated extended-code modes, enter/exit scripts, matched retractions, inch / "
        "relative) run through the plugin's hooks, ending inside or outside an episode, with script-hook invocations inserted "
        "mid-program and appended at the end: gcode/afterPrintDone (repeated), other script names and types, and invocations "
        "after PRINT_DONE / PRINT_CANCELLED / PRINT_FAILED. Non-trivial = the afterPrintDone hook fires while an episode with at "
        "least one deferred code is open. Distinct by SHA-1 of the concrete case.")
ASSUMPTIONS = [
    "the prefix returned by the hook is executed on the reference printer; re-synchronisation is judged as in C03/C04 (1e-6 mm)",
    "deferred-code / exit-script shape is judged by the C06 reference model",
    "'contributes nothing' = hook returns None and a deep snapshot of the tracking state is unchanged",
]

HOOKS = [["hook", "gcode", "afterPrintDone"]] * 4 + [["hook", "gcode", "afterPrintCancelled"], ["hook", "gcode", "beforePrintStarted"],
                                                       ["hook", "gcode", "afterPrinterConnected"], ["hook", "other", "afterPrintDone"],
                                                       ["hook", "gcode", "afterprintdone"]]


@st.composite
def cases(draw):
    base = draw(gen.cases(PROFILE))
    prog = []
    for item in base["prog"]:
        prog.append(item)
        if draw(st.integers(0, 25)) == 0:
            prog.append(list(draw(st.sampled_from(HOOKS))))
    if draw(st.integers(0, 3)) > 0 and base["regions"]:
        # make sure many programs end inside an episode
        rnd = gen.Renderer(base["config"], base["regions"], PROFILE, 0.508, False, False)
        for item in prog:
            if item[0] == "g":
                rnd.pr.execute(item[1])
        if not rnd.pr.abs:
            prog.append(["g", "G90"])
            rnd.pr.execute("G90")
        if rnd.pr.u != 1.0 and draw(st.booleans()):
            prog.append(["g", "G21"])
            rnd.pr.execute("G21")
        if rnd.pr.abs:
            tx, ty = rnd.target("in", draw(st.integers(0, 3)), draw(st.integers(0, 100)), draw(st.integers(0, 100)))
            prog.append(["g", "G1 X%s Y%s" % (gen.fmt(rnd.lx("x", tx)), gen.fmt(rnd.lx("y", ty)))])
            if draw(st.integers(0, 30)) == 0:
                # a very long stay in the region before the print ends: hundreds of suppressed commands, the deferred codes
                # arriving around the 500th / 1000th of them, none of them repeated afterwards
                stay = draw(st.sampled_from([494, 495, 496, 497, 994, 996]))
                for q in range(stay):
                    prog.append(["g", "G1 X%s Y%s" % (gen.fmt(rnd.lx("x", tx) + 0.001 * (q % 30)), gen.fmt(rnd.lx("y", ty) + 0.001 * (q // 30)))])
                prog += [["g", "M117 nearly there"], ["g", "M73 P98"], ["g", "M204 S300"], ["g", "M205 X5"], ["g", "M117 the end"], ["g", "M73 P99"]]
            for _ in range(draw(st.integers(1, 3))):
                prog.append(["g", draw(st.sampled_from(["M117 done soon", "M204 S400", "M204 T900", "M73 P99", "M106 S0", "G4 P10", "M205 X6"]))])
            k = draw(st.integers(0, 7))
            if k >= 6:
                # the episode is closed by a disable; exclusion is switched on again with the tool still inside the region (or
                # moved into it while disabled) and the job ends before any further move: no episode is open
                prog.append(["at", "ExcludeRegion", "off"])
                if k == 7:
                    tx, ty = rnd.target("in", draw(st.integers(0, 3)), draw(st.integers(0, 100)), draw(st.integers(0, 100)))
                    prog.append(["g", "G1 X%s Y%s" % (gen.fmt(rnd.lx("x", tx)), gen.fmt(rnd.lx("y", ty)))])
                prog.append(["at", "ExcludeRegion", "on"])
                for _ in range(draw(st.integers(0, 2))):
                    prog.append(["g", draw(st.sampled_from(["M73 P100", "M117 bye", "M204 S100", "G4 P1"]))])
                prog.append(["hook", "gcode", "afterPrintDone"])
            elif k >= 3:
                prog.append(["hook", "gcode", "afterPrintDone"])
            elif k >= 1:
                # the print ends (or pauses) first, then the hook is invoked with the episode still open
                prog.append(["event", draw(st.sampled_from(["PRINT_CANCELLING", "PRINT_CANCELLED", "PRINT_FAILED", "ERROR", "PRINT_DONE", "PRINT_PAUSED"]))])
                prog.append(["hook", "gcode", "afterPrintDone"])
    tail = draw(st.lists(st.one_of(st.sampled_from(HOOKS).map(list),
                                   st.sampled_from(["PRINT_DONE", "PRINT_CANCELLED", "PRINT_CANCELLING", "PRINT_FAILED", "ERROR", "PRINT_PAUSED", "PRINT_RESUMED"]).map(lambda n: ["event", n])),
                         min_size=1, max_size=5))
    base["prog"] = prog + tail
    # the clear-after-print setting does not change what the hook owes the printer
    base["config"] = dict(base["config"], clear_after_print=draw(st.booleans()))
    return base


def strategy(tier):
    return cases()


def run_case(case, strict=False):  # pylint: disable=unused-argument,too-many-branches
    after = {}

    def observer(it, flt):
        if it.kind == "hook":
            after[it.idx] = core.state_snapshot(flt.state)

    tr = core.run(case, filter_factory=plugin_harness.PluginFilter, observer=observer)
    cfg = case["config"]
    ext = cfg.get("ext") if cfg.get("ext") is not None else core.DEFAULT_EXT
    out, cl, _ = c06.check_trace(tr, ext, cfg.get("enter") or [], cfg.get("exit") or [])
    out = [f for f in out if f["tag"] in ("exception", "c06_flush", "c06_exit_script", "c06_leak", "c06_hook_contributes")]
    nontrivial = False
    F = asserts.F
    for it in tr.items:
        if it.kind != "hook":
            continue
        cl.add("hook_" + ("closing" if it.closing else "inert"))
        if not it.active_before:
            cl.add("hook_after_print_end")
        if it.closing:
            # OctoPrint's contract: (prefix, postfix[, variables]), each None, a string or a list; the statement wants a prefix
            if not (isinstance(it.raw, tuple) and len(it.raw) >= 2 and core.script_lines(it.raw[0]) and not core.script_lines(it.raw[1])):
                out.append(F("c15_shape", it, "afterPrintDone with an open episode returned %r, expected a non-empty prefix and no postfix" % (it.raw,)))
                continue
            pf, pu = asserts.last_snap(it), it.u_after
            for ax, name in ((X, "X"), (Y, "Y"), (Z, "Z"), (E, "E")):
                if not close(pf[ax], pu[ax], 1e-6):
                    out.append(F("c15_resync", it, "after the print-done prefix the printer %s is %r, the file is at %r" % (name, pf[ax], pu[ax])))
            if pf[ABS] != pu[ABS] or pf[U] != pu[U]:
                out.append(F("c15_resync", it, "mode/units differ after the print-done prefix"))
            snap = after.get(it.idx)
            if snap is not None and snap["excluding"]:
                out.append(F("c15_still_excluding", it, "filter still excluding after the print-done prefix was contributed"))
            if snap is not None and snap["pending"]:
                out.append(F("c15_pending_left", it, "deferred commands left pending after the print-done prefix: %r" % (snap["pending"],)))
            if it.state_before["pending"]:
                nontrivial = True
        else:
            if it.raw is not None:
                out.append(F("c15_contributes", it, "hook contributed %r although no episode is open / no print is active / other script" % (it.raw,)))
            if after.get(it.idx) != it.state_before:
                out.append(F("c15_state_changed", it, "inert hook invocation changed the tracking state"))
    return out, {"nontrivial": nontrivial, "classes": sorted(cl), "truncated": tr.truncated,
                 "sample": {"config": cfg, "regions": case["regions"],
                            "prog": [i[1] if i[0] == "g" else i for i in case["prog"]]}}


def selftest():
    printer.selftest()
    gread.selftest()
    plugin_harness.selftest()
