"""C14 - @-commands switch exclusion off and on correctly."""
from vlib import env, core, gen, asserts, printer, gread, geom  # noqa: F401
from vlib.core import X, Y, Z, E, ABS, U
from vlib.printer import close

ID = "C14"
BUDGET = {"quick": 2000, "thorough": 25000}
PROFILE = gen.profile(retract="matched", at_w=7, at_custom=True, streaming=True, home_mid=True, arcs=1, offon=3, set_at=1)
RULE = ("C03-style programs with enable / disable / unrelated / malformed @-commands inserted anywhere (inside and outside "
        "episodes), default and generated custom action tables (several entries per command, patterns from a small regex pool, "
        "trailing parameter text), occasionally with the comm object streaming to SD; single-axis and relative moves follow "
        "re-enabling. The enabled/disabled model is an independent evaluation of the action table (re.match, table order). "
        "Non-trivial = a disable, then at least one position-changing move while disabled, then an enable, then a move decision. "
        "Distinct by SHA-1 of the concrete case.")
ASSUMPTIONS = [
    "reference printer / episode oracle as in C01 and C03",
    "'change nothing' is checked on the handler's return value, the commands sent through comm and a deep snapshot of the tracking state read from public attributes",
]


def strategy(tier):
    # thorough tier: programs of up to 100 ops (quick: 40)
    return gen.cases(dict(PROFILE, maxlen=100, long=15) if tier == "thorough" else PROFILE)


def run_case(case, strict=False):  # pylint: disable=unused-argument,too-many-branches
    after = {}

    def observer(it, flt):
        if it.kind == "at":
            after[it.idx] = core.state_snapshot(flt.state)

    tr = core.run(case, observer=observer)
    direct = case.get("via") != "plugin"      # the plugin's @-command hook returns nothing; the handled flag is only visible on the direct path
    out = asserts.exceptions(tr)
    out += [f for f in asserts.c01(tr) if f["tag"] != "exception"]
    atm = core.AtModel(case.get("config", {}).get("at"))
    cl0 = set()
    phase = 0          # 0: enabled, 1: disabled, 2: moved while disabled, 3: re-enabled after that
    nontrivial = False
    cl = set()
    for it in tr.items:
        if it.kind == "set_at":
            atm = core.AtModel(it.item[1])
            cl0.add("action_table_changed_mid_print")
            continue
        if it.kind == "g" and it.is_move:
            if not it.enabled_before:
                if it.cmd not in it.out:
                    # (an owed recovery may legitimately precede it)
                    out.append(asserts.F("c14_suppressed_while_disabled", it, "move while exclusion is disabled was not forwarded: %r" % (it.out,)))
                if phase == 1 and asserts.moved(it.u_before, it.u_after):
                    phase = 2
            else:
                if phase == 3:
                    nontrivial = True
                    cl.add("decision_after_reenable_" + str(it.cls))
                if not it.open_before and it.cls == geom.OUT and it.cmd not in it.out:
                    out.append(asserts.F("c14_spurious_suppression", it, "move with destination outside every region, no episode open, was not forwarded: %r" % (it.out,)))
        if it.kind == "at":
            streaming = len(it.item) > 3 and it.item[3] is True
            acts = atm.actions(it.item[1], it.item[2], streaming)
            if streaming:
                cl.add("at_while_streaming")
            if len(it.item) > 3 and it.item[3] == "paused":
                cl.add("at_while_paused")
            if not acts:
                cl.add("at_no_match")
                if direct and it.raw is not False and it.raw:
                    out.append(asserts.F("c14_unmatched_handled", it, "@-command matching no configured action reported as handled"))
                if it.out:
                    out.append(asserts.F("c14_unmatched_sends", it, "@-command matching no configured action sent %r" % (it.out,)))
                if after.get(it.idx) != it.state_before:
                    out.append(asserts.F("c14_unmatched_changes_state", it, "@-command matching no configured action changed the tracking state"))
            else:
                if direct and not it.raw:
                    out.append(asserts.F("c14_matched_not_handled", it, "@-command matching a configured action reported as not handled"))
                if it.enabled_before and not it.enabled_after:
                    phase = 1
                    cl.add("disable")
                    if it.closing:
                        cl.add("disable_closes_episode")
                        pf, pu = asserts.last_snap(it), it.u_after
                        for ax, name in ((X, "X"), (Y, "Y"), (Z, "Z"), (E, "E")):
                            if not close(pf[ax], pu[ax], 1e-6):
                                out.append(asserts.F("c14_resync_on_disable", it, "after a disable inside an episode the printer %s is %r, the file is at %r" % (name, pf[ax], pu[ax])))
                        if pf[ABS] != pu[ABS] or pf[U] != pu[U]:
                            out.append(asserts.F("c14_resync_on_disable", it, "mode/units differ after a disable inside an episode"))
                    elif it.out and asserts.last_snap(it)[:10] != it.f_before[:10]:
                        out.append(asserts.F("c14_disable_sends", it, "disable outside an episode sent %r, which changes the printer's state" % (it.out,)))
                elif not it.enabled_before and it.enabled_after:
                    cl.add("enable")
                    if phase == 2:
                        phase = 3
                    if it.out and asserts.last_snap(it)[:10] != it.f_before[:10]:
                        out.append(asserts.F("c14_enable_sends", it, "enable sent %r, which changes the printer's state" % (it.out,)))
                    snap = after.get(it.idx)
                    if snap is not None and not snap["enabled"]:
                        out.append(asserts.F("c14_enable_ignored", it, "exclusion still disabled after a matching enable"))
    # "the same re-synchronisation obligations as leaving a region": the extruder coordinate and the amounts extruded afterwards
    # (C04), and a recovery skipped inside the episode is still owed after the disable (C05) - programs have matched cycles
    out += [dict(f, tag="c14_" + f["tag"]) for f in asserts.c04(tr) if f["tag"] in ("c04_e_outside", "c04_e_coordinate", "c04_deposit", "c04_amount")]
    out += [dict(f, tag="c14_" + f["tag"]) for f in asserts.c05(tr, bool(case.get("meta", {}).get("fw")))
            if f["tag"] in ("c05_deeper", "c05_shallower", "c05_not_recovered")]
    cl2, _ = asserts.classes(tr, case)
    cl |= cl0
    return out, {"nontrivial": nontrivial, "classes": sorted(cl | cl2), "truncated": tr.truncated, "excluded_known": case.get("meta", {}).get("excluded_known", 0),
                 "sample": {"regions": case["regions"], "config": case["config"],
                            "prog": [i[1] if i[0] == "g" else i for i in case["prog"]]}}


def selftest():
    printer.selftest()
    gread.selftest()
