"""C08 - Exclusion decisions are invariant under re-encoding of the same tool path (metamorphic)."""
from hypothesis import strategies as st

from vlib import env, core, gen, geom, kf, printer  # noqa: F401
from vlib.core import X, Y, Z, FIL
from vlib.printer import close

ID = "C08"
BUDGET = {"quick": 2000, "thorough": 20000}
RULE = ("Hypothesis draws an abstract tool path (12-40 ops: moves to 0.5 mm grid points / region interiors, Z changes, extrusions, "
        "E-only retract/recover cycles, I/J arcs of 1-3 quarter turns about grid centres), 1-3 regions whose borders are at least 0.1 mm away from every grid destination, a cut "
        "index k and a re-encoding: inches from k (9 decimals), relative positioning from k, G92 X Y Z re-basing at k with all "
        "later coordinates shifted, or translation of path and regions by a grid vector. Base (mm, absolute) and variant are run "
        "separately; the base run is the oracle. Non-trivial = at least one command at or after the cut is suppressed (the frame "
        "change is live while suppression happens). Distinct by SHA-1 of the case.")
ASSUMPTIONS = [
    "decision kind per op: verbatim / suppressed / rewritten; physical position of the reference printer compared within 1e-4 mm, filament within 1e-6 mm",
    "G92 re-basing is issued in absolute mode, outside... at an arbitrary op boundary; while KF-G92-XYZ-SIGN is open the re-basing transformation is excluded (counted)",
]

ZS = [0.2, 0.4, 0.6, 1.0, 5.0, 0.21, 0.22]


@st.composite
def cases(draw):
    nreg = draw(st.integers(1, 3))
    regions = [draw(gen.region(k, False)) for k in range(nreg)]
    rnd = gen.Renderer({}, regions, gen.profile(), 0.508, False, False)
    ops = []
    xf = draw(st.sampled_from(["inch", "relative", "rebase", "translate"]))
    for _ in range(draw(st.integers(12, 40))):
        k = draw(st.sampled_from(["in", "in", "grid", "grid", "grid", "z", "ret", "e", "arc"]))
        if k == "arc" and xf == "inch":
            # arcs are sampled once per *logical* unit (C16): in inches an arc reaching 2 mm into a region is below the sampling
            # resolution, in millimetres it is not - the statement's quantifier (moves, Z changes, extrusions, cycles) has no arcs
            k = "grid"
        if k == "grid" and xf in ("inch", "relative") and draw(st.integers(0, 9)) == 0:
            # homing mid-path (a fixed physical point: not part of a translated or re-based path), right after a move to a
            # point outside every region - no episode is open then (C03: no homing while an episode is open)
            tx, ty = rnd.target("grid", 0, draw(st.integers(0, 120)), draw(st.integers(0, 120)))
            tx, ty = round(tx * 2) / 2.0, round(ty * 2) / 2.0
            if geom.classify(regions, tx, ty, 0.05) == geom.OUT:
                ops.append(["mv", tx, ty, None, 0])
                ops.append(["home", draw(st.sampled_from(["", "", " X", " Y", " Z", " X Y", " X0 Y0 Z0"]))])
            continue
        if k == "e" and draw(st.integers(0, 60)) == 0:
            # a long stretch of distinct moves in the free corner (hundreds of commands), after which the path goes on
            ops.append(["raster", draw(st.sampled_from([300, 560, 1100]))])
            for o in list(ops[:8]):
                if o[0] == "mv":
                    ops.append(list(o))        # ... and comes back to its first destinations
            continue
        if k == "arc":
            # I/J arc of 1-3 quarter turns about a centre on the 0.5 mm grid (so the end point is a grid point too)
            di, dj = draw(st.integers(-12, 12)) * 0.5, draw(st.integers(-12, 12)) * 0.5
            if not (di or dj):
                di = 2.5
            ops.append(["arc", di, dj, draw(st.integers(1, 3)), draw(st.booleans())])
            continue
        if k in ("in", "grid"):
            tx, ty = rnd.target(k, draw(st.integers(0, 5)), draw(st.integers(0, 120)), draw(st.integers(0, 120)))
            tx, ty = round(tx * 2) / 2.0, round(ty * 2) / 2.0
            ops.append(["mv", tx, ty, draw(st.sampled_from([None, None, None] + ZS)), draw(st.sampled_from([0, 0, 1, 3]))])
        elif k == "z":
            ops.append(["mv", None, None, draw(st.sampled_from(ZS)), 0])
            if draw(st.integers(0, 2)) == 0:
                # a move that names one of X / Y only
                ops.append(["mv1", draw(st.sampled_from(["x", "y"])), draw(st.integers(-10, 120)) * 0.5])
        elif k == "ret":
            ops.append(["ret"])
        else:
            ops.append(["e", draw(st.sampled_from([1, 2, 5]))])
    cut = draw(st.integers(0, len(ops) - 1))
    par = [draw(st.integers(-10, 30)) * 0.5, draw(st.integers(-10, 30)) * 0.5, draw(st.sampled_from([0.0, 1.0, 2.5]))]
    moves = [o for o in ops if o[0] == "mv" and o[1] is not None]
    if xf == "translate" and moves and draw(st.integers(0, 2)) == 0:
        # a translation that puts one destination exactly on the origin (logical 0 is a legal coordinate)
        m = moves[draw(st.integers(0, len(moves) - 1))]
        par[0], par[1] = -m[1], -m[2]
        if draw(st.booleans()):
            # ... or a few hundredths of a micron beside it (tiny non-zero logical coordinates)
            par[0] += draw(st.sampled_from([0.00005, -0.00002, 0.0]))
            par[1] += draw(st.sampled_from([0.00003, -0.00007, 0.0]))
    return {"regions": regions, "ops": ops, "xf": xf, "cut": cut, "par": par, "g90e": False,
            "spell": draw(st.sampled_from(["plain", "plain", "compact", "plus"]))}


def strategy(tier):
    return cases()


def render(case, variant):  # noqa: C901  pylint: disable=too-many-branches,too-many-locals,too-many-statements
    """Concrete program [(op_index|None, cmd)] for the base (variant=False) or the re-encoded path."""
    xf, cut, par = case["xf"], case["cut"], case["par"]
    prog = [(None, "G28"), (None, "G1 X1 Y1 Z0.2 F3000")]
    x, y, z, e = 1.0, 1.0, 0.2, 0.0
    retracted = False
    u = 1.0
    rel = False
    shift = [0.0, 0.0, 0.0]          # logical = physical - shift
    dx = dy = 0.0
    if variant and xf == "translate":
        dx, dy = par[0], par[1]
        prog = [(None, "G28"), (None, "G1 X1 Y1 Z0.2 F3000"), (None, "G1 X%s Y%s" % (gen.fmt(1 + dx), gen.fmt(1 + dy)))]
    elif xf == "translate":
        prog.append((None, "G1 X1 Y1"))
    nd = 9

    style = case.get("spell", "plain") if variant else "plain"

    def num(v):
        t = gen.fmt(v, nd)
        if style == "compact":
            # legal compact spellings: no leading zero, trailing point for integers
            if t.startswith("0."):
                t = t[1:]
            elif t.startswith("-0."):
                t = "-" + t[2:]
            elif "." not in t:
                t += "."
        elif style == "plus" and not t.startswith("-"):
            t = "+" + t
        return t

    def word(axis, cur, new, sh):
        if rel:
            return " %s%s" % (axis, num((new - cur) / u))
        return " %s%s" % (axis, num((new - sh) / u))

    for idx, op in enumerate(case["ops"]):
        if variant and idx == cut:
            if xf == "inch":
                prog.append((None, "G20"))
                u = 25.4
            elif xf == "relative":
                prog.append((None, "G91"))
                rel = True
            elif xf == "rebase":
                given = [par[0], par[1], par[2]]
                prog.append((None, "G92 X%s Y%s Z%s" % tuple(gen.fmt(v) for v in given)))
                shift = [x + dx - given[0], y + dy - given[1], z - given[2]]
        if op[0] == "mv":
            w = ""
            nx, ny, nz = x, y, z
            if op[1] is not None:
                nx, ny = op[1], op[2]
                w += word("X", x + dx, nx + dx, shift[0]) + word("Y", y + dy, ny + dy, shift[1])
            if op[3] is not None:
                nz = op[3]
                w += word("Z", z, nz, shift[2])
            if op[4] and not retracted:
                e += op[4] * 0.127
                w += " E" + gen.fmt(e / u, nd)
            prog.append((idx, "G1" + w))
            x, y, z = nx, ny, nz
        elif op[0] == "mv1":
            if op[1] == "x":
                prog.append((idx, "G1" + word("X", x + dx, op[2] + dx, shift[0])))
                x = op[2]
            else:
                prog.append((idx, "G1" + word("Y", y + dy, op[2] + dy, shift[1])))
                y = op[2]
        elif op[0] == "raster":
            for n in range(op[1]):
                nx, ny = 70.0 + 0.25 * (n % 80), 70.0 + 0.25 * (n // 80)
                prog.append((idx if n == op[1] - 1 else None, "G1" + word("X", x + dx, nx + dx, shift[0]) + word("Y", y + dy, ny + dy, shift[1])))
                x, y = nx, ny
        elif op[0] == "home":
            prog.append((idx, "G28" + op[1]))
            axes = [a for a in "XYZ" if a in op[1]] or ["X", "Y", "Z"]
            if "X" in axes:
                x = 0.0
            if "Y" in axes:
                y = 0.0
            if "Z" in axes:
                z = 0.0
        elif op[0] == "arc":
            _, di, dj, q, cw = op
            vx, vy = -di, -dj
            for _ in range(q):
                vx, vy = (vy, -vx) if cw else (-vy, vx)
            nx, ny = x + di + vx, y + dj + vy
            w = word("X", x + dx, nx + dx, shift[0]) + word("Y", y + dy, ny + dy, shift[1]) + " I%s J%s" % (num(di / u), num(dj / u))
            prog.append((idx, ("G2" if cw else "G3") + w))
            x, y = nx, ny
        elif op[0] == "ret":
            e += 0.508 if retracted else -0.508
            retracted = not retracted
            prog.append((idx, "G1 E%s F%s" % (gen.fmt(e / u, nd), gen.fmt(2400 / u, 4))))
        else:
            if retracted:
                prog.append((idx, "M400"))
            else:
                e += op[1] * 0.127
                prog.append((idx, "G1 E" + gen.fmt(e / u, nd)))
    return prog, (dx, dy)


def run_one(case, variant):
    prog, vec = render(case, variant)
    regions = case["regions"]
    if variant and case["xf"] == "translate":
        regions = []
        for r in case["regions"]:
            r = dict(r)
            if r["type"] == "rect":
                r.update(x1=r["x1"] + vec[0], x2=r["x2"] + vec[0], y1=r["y1"] + vec[1], y2=r["y2"] + vec[1])
            else:
                r.update(cx=r["cx"] + vec[0], cy=r["cy"] + vec[1])
            regions.append(r)
    tr = core.run({"config": {"g90e": case.get("g90e", False)}, "regions": regions, "prog": [["g", c] for _, c in prog]})
    per_op = {}
    for (idx, _c), it in zip(prog, tr.items):
        if idx is not None:
            per_op[idx] = it
    return per_op, vec, tr


def kind(it):
    if it.exception:
        return "exception"
    if it.out == [it.cmd]:
        return "verbatim"
    if not it.out:
        return "suppressed"
    return "rewritten"


def run_case(case, strict=False):
    out = []
    cl = set([case["xf"]])
    if case["xf"] == "rebase" and kf.is_open("KF-G92-XYZ-SIGN") and not strict:
        return out, {"nontrivial": False, "classes": sorted(cl | {"rebase_excluded_known"}), "excluded_known": 1}
    base, _, trb = run_one(case, False)
    var, vec, trv = run_one(case, True)
    nontrivial = False
    for idx in sorted(base):
        b, v = base[idx], var.get(idx)
        if v is None:
            out.append({"tag": "c08_exception", "at": idx, "msg": "variant run stopped before op %d (%s)" % (idx, [i.exception for i in trv.items if i.exception])})
            break
        if b.u_step is not None and b.u_step.arc is not None:
            cl.add("arc")
            if core.classify_arc(case["regions"], b.u_step.arc, 1e-6) == geom.EDGE:
                # an arc that grazes a region (less than the sampling resolution inside): its decision is not determined by the
                # statement (and may legitimately differ with the float noise of a re-encoding); nothing after it is compared
                cl.add("truncated_at_grazing_arc")
                break
        kb, kv = kind(b), kind(v)
        if kb != kv:
            out.append({"tag": "c08_decision", "at": idx, "msg": "op %d: base %r -> %s %r, %s variant %r -> %s %r" % (idx, b.cmd, kb, b.out, case["xf"], v.cmd, kv, v.out)})
            break
        sb = b.f_steps[-1][1] if b.f_steps else b.f_before
        sv = v.f_steps[-1][1] if v.f_steps else v.f_before
        for ax, d, name in ((X, vec[0], "X"), (Y, vec[1], "Y"), (Z, 0.0, "Z")):
            if not close(sb[ax] + d, sv[ax], 1e-4):
                out.append({"tag": "c08_position", "at": idx, "msg": "op %d: printer %s is %r in the base run (+%r) and %r in the %s variant" % (idx, name, sb[ax], d, sv[ax], case["xf"])})
        if not close(sb[FIL], sv[FIL], 1e-6):
            out.append({"tag": "c08_filament", "at": idx, "msg": "op %d: filament position %r (base) vs %r (%s variant)" % (idx, sb[FIL], sv[FIL], case["xf"])})
        if out:
            break
        if kb == "suppressed" and (idx >= case["cut"] or case["xf"] == "translate"):
            nontrivial = True
        if b.open_before and idx == case["cut"]:
            cl.add("cut_inside_episode")
    if any(it.exception for it in trb.items):
        out.append({"tag": "c08_exception", "at": None, "msg": "base run raised %r" % ([i.exception for i in trb.items if i.exception],)})
    return out, {"nontrivial": nontrivial, "classes": sorted(cl),
                 "sample": {"regions": case["regions"], "xf": case["xf"], "cut": case["cut"], "variant": [c for _, c in render(case, True)[0]][:30]}}


def selftest():
    printer.selftest()
