"""C09 - Filtering is total and protocol-conformant (grammar-based fuzzing, two entry points)."""
import io

from hypothesis import strategies as st

from vlib import env, core, gen, plugin_harness  # noqa: F401
from vlib.plugin_harness import Harness
from octoprint_excluderegion.StreamProcessor import StreamProcessor

ID = "C09"
BUDGET = {"quick": 1200, "thorough": 15000}
RULE = ("Hypothesis draws 0-3 regions (incl. degenerate), an extended-code configuration and, after G28, 4-30 commands from a "
        "wide grammar: every handled code (G0-G3, G10, G11, G20, G21, G28, G90, G91, G92, M206), configured deferred codes, unknown "
        "codes, sub-codes, T codes, lower case; 0-7 parameter words with any letter, missing / repeated / valueless words, signs, "
        "1-25-digit (occasionally 40-300-digit, still finite) integers, up to 30 decimals, leading/trailing points; templates for degenerate arcs (I=J=0, end=start, end in "
        "line with the centre, R=0, |R| below half the chord, R with axis-aligned and diagonal chords); @-commands toggling "
        "exclusion. Each sequence is run through plugin.handleGcodeQueuing (active print) and through StreamProcessor.process_line "
        "(lines with comments, line numbers, CRLF). Arc radii are bounded (|I|,|J|,|R| <= 1500 logical units) because planArc "
        "materialises one point per unit - a cost bound. Non-trivial = the sequence opened an episode or planned an arc. "
        "Distinct by SHA-1 of the case.")
ASSUMPTIONS = [
    "numbers are finite (at most 300 integer digits); the axes are homed by the leading G28",
    "result shapes: None | exactly (None,) | non-empty list of non-empty str (hook); None | non-empty str (stream)",
]

CODES = ["G0", "G1", "G1", "G1", "G2", "G3", "G10", "G11", "G20", "G21", "G28", "G90", "G91", "G92", "M206", "G4", "M117", "M204", "M205",
         "M73", "G5", "G29", "G38.2", "G92.1", "M82", "M83", "M104", "M106", "T0", "T1", "M600", "G1.5", "g1", "g2", "m117", "G00", "G01",
         "M0", "G80", "M999"]
LETTERS = "XYZEFIJRPSXYZEFXYLKABCDHOQUVWT"
ints = st.one_of(st.integers(1, 25), st.integers(1, 25), st.integers(1, 25), st.sampled_from([40, 120, 155, 160, 200, 300, 308])).flatmap(lambda n: st.text(alphabet="0123456789", min_size=n, max_size=n))
decs = st.integers(1, 30).flatmap(lambda n: st.text(alphabet="0123456789", min_size=n, max_size=n))
small = st.sampled_from(["0", "1", "2", "5", "10", "15", "20", "25", "0.5", "12.5", "7.25", "100", "0.001", "250"])
number = st.one_of(small, small, small,
                   st.tuples(st.sampled_from(["", "-", "+"]), ints).map("".join),
                   st.tuples(st.sampled_from(["", "-"]), small, st.just("."), decs).map(lambda t: t[0] + t[1].split(".")[0] + t[2] + t[3]),
                   st.tuples(st.just("."), decs).map("".join),
                   st.tuples(small.map(lambda s: s.split(".")[0]), st.just(".")).map("".join))
word = st.tuples(st.sampled_from(LETTERS), st.sampled_from(["u", "u", "u", "l"]), st.sampled_from(["", "", " "]),
                 st.one_of(number, number, st.just(""))).map(lambda t: (t[0].lower() if t[1] == "l" else t[0]) + t[2] + t[3])
ARC_TEMPLATES = ["G2 X10 Y10 I0 J0", "G3 X10 Y10", "G2 I5 J0", "G3 I0 J-5", "G3 X-5 Y0 I10 J0", "G2 X20 Y0 I10 J0", "G2 X10 Y10 R0", "G3 X30 Y0 R4",
                 "G2 X10 Y0 R5", "G3 X0 Y10 R7", "G2 X10 Y10 R10", "G3 X7 Y3 R-12", "G2 R5", "G3 X5 Y5 I2.5 J2.5 Z1 E1 F900", "G2 X15 Y15 I1 J1",
                 "G2 X0.0001 Y0 I0.00005 J0", "G3 X1 Y1 I1500 J0", "G2 X5 Y5 R-1500", "G2 X12 Y15 I2 J0 R3", "G3 I", "G2 X Y I1"]
NEAR_R = ["4.9998", "4.99999999", "5.0000001", "5.0004", "-4.9998", "5", "-5", "4.9995", "5.0005"]
MISC_TEMPLATES = ["G28", "G28 X", "G28 Z0", "G92 X0 Y0 Z0 E0", "G92 E", "G92", "M206 X5 Y-5 Z0.1", "M206", "G10 P1 L2 X0", "G10 S1", "G11 S1",
                  "G1 E-5 F1800", "G1 E5", "G1 F", "G1 X15 Y15", "G1 X15.5 Y16 E3", "G1 X40 Y40", "G0 Z", "G1 X15", "G91", "G90", "G20", "G21",
                  "M117", "M117 X1 *;", "M204 S", "M205 X Y", "M73 P50 R", "G4", "G1 Z5", "G0 Z1.5", "G1 Z0.3 E1", "G1 Z2 F600",
                  "G1 E-2", "G1 E-0.5", " G10 S1", "  G10", " G11", " G1 X15 Y15", "G1 E3"]


@st.composite
def command(draw):
    k = draw(st.integers(0, 9))
    if k == 0 and draw(st.booleans()):
        # R-form arc whose radius is within rounding / a small tolerance of half the chord (chord 10 from the given start)
        a, b = draw(st.sampled_from([(0, 0), (5, 5), (12, 3)]))
        dx, dy = draw(st.sampled_from([(10, 0), (0, 10), (6, 8), (-8, 6)]))
        return "G90\nG1 X%d Y%d\n%s X%d Y%d R%s" % (a, b, draw(st.sampled_from(["G2", "G3"])), a + dx, b + dy, draw(st.sampled_from(NEAR_R)))
    if k == 1 and draw(st.integers(0, 5)) == 0:
        # finite words whose sum / unit conversion overflows the tracked position
        big = "9" * 308
        return draw(st.sampled_from(["G20\nG1 X%s Y5\nG1 X1 Y1" % big, "G91\nG1 X%s\nG1 X%s Y2\nG90\nG1 X5 Y5" % (big, big),
                                     "G1 X-%s Y%s\nG20\nG21\nG1 Z2" % (big, big), "G20\nG92 E%s\nG1 E1" % big]))
    if k == 0:
        return draw(st.sampled_from(ARC_TEMPLATES))
    if k <= 2:
        return draw(st.sampled_from(MISC_TEMPLATES))
    code = draw(st.sampled_from(CODES))
    words = draw(st.lists(word, max_size=7))
    sep = draw(st.sampled_from([" ", " ", ""]))
    cmd = code + "".join((sep if (sep or i == 0) else "") + w for i, w in enumerate(words)) if False else code + (" " if words else "") + sep.join(words)
    return cmd


@st.composite
def cases(draw):
    nreg = draw(st.integers(0, 3))
    regions = [draw(gen.region(k, draw(st.booleans()))) for k in range(nreg)]
    cfg = {"g90e": draw(st.booleans()), "debug": draw(st.integers(0, 3)) == 0}
    if draw(st.integers(0, 2)) == 0:
        cfg["ext"] = {"G4": "exclude", "M117": "first", "M204": "merge", "M205": "merge", "M73": "last", "G5": "merge", "T": "last", "M106": "first"}
    if draw(st.integers(0, 2)) == 0:
        cfg["enter"] = ["M117 in"]
        cfg["exit"] = ["M117 out", "M400"]
    prog = [["g", "G28"]]
    scenario = regions and draw(st.booleans())
    if scenario:
        rnd = gen.Renderer({}, regions, gen.profile(), 0.508, False, False)
        prog.append(["g", "G1 X1 Y1 Z0.2 F3000"])
    for _ in range(draw(st.integers(4, 30))):
        if scenario and draw(st.integers(0, 2)) == 0:
            # retraction / deferred-code heavy stretch around an episode
            k = draw(st.sampled_from(["in", "in", "out", "ret", "ret", "ret", "code", "offz"]))
            if k == "offz":
                # exclusion switched off (or on) right where the tool is, then a command without X/Y
                prog.append(["at", "ExcludeRegion", draw(st.sampled_from(["off", "off", "on"]))])
                prog.append(["g", draw(st.sampled_from(["G1 Z5", "G0 Z0.4", "G1 Z1 E1", "G1 F900", "G1 E2"]))])
                continue
            if k in ("in", "out"):
                tx, ty = rnd.target("in" if k == "in" else "grid", draw(st.integers(0, 3)), draw(st.integers(0, 100)), draw(st.integers(0, 100)))
                prog.append(["g", "G1 X%s Y%s%s" % (gen.fmt(tx), gen.fmt(ty), draw(st.sampled_from(["", " E1", " E-1", " Z2"])))])
            elif k == "ret":
                prog.append(["g", draw(st.sampled_from(["G10", "G11", "G10 S1", "G11", "G1 E-2 F1800", "G1 E2", "G1 E-1", "G1 E3 F900", "G92 E0",
                                                        "G1 E1.25", "G1 E1.249999", "G1 E1.2499999999", "G92 E0.0000001", "G1 E0", "G1 E-0.000001", "G10S1"]))])
            else:
                prog.append(["g", draw(st.sampled_from(["M117 a", "M204 S5", "M204 T7", "M205 X Y5", "M73 P5", "G4 P1", "T0", "G5 X1 I1"]))])
        elif draw(st.integers(0, 11)) == 0:
            prog.append(["at", "ExcludeRegion", draw(st.sampled_from(["off", "on", "", "x"]))])
        elif draw(st.integers(0, 14)) == 0:
            # the user draws a region around the tool (wherever the filter believes it is) or deletes one, mid-print
            prog.append(draw(st.sampled_from([["reghere", 2.5], ["reghere", 0.0], ["reghere", 40.0], ["regdel"]])))
            if draw(st.booleans()):
                prog.append(["g", draw(st.sampled_from(["G1 Z5", "G0 Z1", "G1 Z0.4 E2", "G10", "G1 E-1"]))])
                prog.append(["g", draw(st.sampled_from(["G1 X200 Y200", "G1 X-50 Y0", "G91", "G1 X100"]))])
        else:
            for c in draw(command()).split("\n"):
                prog.append(["g", c])
    if draw(st.integers(0, 40)) == 0:
        # a long print: hundreds of distinct commands, parameterless ones recurring, then the early commands once more
        head = list(prog[1:12])
        for n in range(draw(st.sampled_from([280, 560, 1100]))):
            prog.append(["g", "G1 X%d.%02d Y%d F%d" % (70 + n % 20, n % 100, 70 + n // 20, 1200 + n)])
            if n % 37 == 5:
                prog.append(["g", draw(st.sampled_from(["G10", "G11", "G28 X", "M400", "G92 E0", "G90"]))])
        prog += head
    elif regions and draw(st.integers(0, 40)) == 0:
        # a very long stay inside a region: over a thousand suppressed commands handled at full speed
        rnd3 = gen.Renderer({}, regions, gen.profile(), 0.508, False, False)
        tx, ty = rnd3.target("in", draw(st.integers(0, 3)), draw(st.integers(0, 100)), draw(st.integers(0, 100)))
        prog += [["g", "G90"], ["g", "G21"], ["g", "G1 X%s Y%s" % (gen.fmt(tx), gen.fmt(ty))]]
        for n in range(draw(st.sampled_from([1005, 2010]))):
            prog.append(["g", "G1 X%s Y%s" % (gen.fmt(tx + 0.0001 * (n % 50), 6), gen.fmt(ty + 0.0001 * (n // 50), 6))])
        prog.append(["g", "G1 X1 Y1"])
    wrap = draw(st.lists(st.sampled_from(["", "", " ;c", "N", "\r\n", "\n"]), min_size=len(prog), max_size=len(prog)))
    return {"config": cfg, "regions": regions, "prog": prog, "wrap": wrap}


def strategy(tier):
    return cases()


def bounded(cmd):
    """Cost bound: arc offsets / radii beyond 1500 units are not fed (one planned point per unit of arc)."""
    up = cmd.upper()
    if not up.lstrip().startswith(("G2", "G3", "G02", "G03")):
        return True
    rd = core.gread.read(cmd)
    if rd is None or rd.code not in ("G2", "G3"):
        return True
    for l, v in rd.words:
        if l in "IJR" and v is not None and abs(v) > 1500:
            return False
    return True


def region_event(state, item, add, delete, idx):
    """A region appears around the tracked tool position / the first region disappears (robustness only: no oracle reads this)."""
    if item[0] == "regdel":
        if state.excludedRegions:
            delete(state.excludedRegions[0].id)
        return
    x, y = state.position.X_AXIS.current, state.position.Y_AXIS.current
    if x is None or y is None or x != x or y != y or abs(x) == float("inf") or abs(y) == float("inf"):
        return
    add({"type": "CircularRegion", "cx": x, "cy": y, "r": item[1], "id": "here%d" % idx})


def shape_ok(res):
    if res is None:
        return True
    if isinstance(res, tuple):
        return res == (None,)
    if isinstance(res, list):
        return len(res) > 0 and all(isinstance(x, str) and x for x in res)
    return False


def run_case(case, strict=False):  # pylint: disable=unused-argument,too-many-branches
    out = []
    cl = set()
    skipped = 0

    def bad(tag, msg):
        out.append({"tag": tag, "msg": msg})

    # entry point 1: the plugin's queuing hooks during an active print
    flt = plugin_harness.PluginFilter(case["config"], case["regions"])
    h = flt.h
    for idx, item in enumerate(case["prog"]):
        try:
            if item[0] == "at":
                h.at(item[1], item[2])
                continue
            if item[0] in ("reghere", "regdel"):
                region_event(h.state, item, lambda d: h.api("addExcludeRegion", d), lambda i: h.api("deleteExcludeRegion", {"id": i}), idx)
                continue
            cmd = item[1]
            if not bounded(cmd):
                skipped += 1
                continue
            res = h.gcode_raw(cmd)
            if not shape_ok(res):
                bad("c09_hook_shape", "item %d %r: hook returned %r" % (idx, cmd, res))
                break
            if h.state.excluding:
                cl.add("episode")
            if cmd.upper().startswith(("G2", "G3")) and res is not None:
                cl.add("arc_planned")
        except Exception as exc:  # pylint: disable=broad-except
            bad("c09_hook_exception", "item %d %r: %s: %s" % (idx, item[1:], type(exc).__name__, exc))
            break
    # entry point 2: the stream processor
    live = core.DirectFilter(case["config"], case["regions"])
    sp = StreamProcessor(io.BytesIO(b""), live.handlers)
    wraps = case.get("wrap") or [""] * len(case["prog"])
    for idx, (item, w) in enumerate(zip(case["prog"], wraps)):
        if item[0] in ("reghere", "regdel"):
            # (the offline copy has its own state: the edit is applied to it directly)
            st_ = sp.gcodeHandlers.state
            try:
                region_event(st_, item, lambda d: st_.addRegion(core.make_region({"type": "circ", "cx": d["cx"], "cy": d["cy"], "r": d["r"], "id": d["id"]})),
                             st_.deleteRegion, idx)
            except Exception as exc:  # pylint: disable=broad-except
                bad("c09_stream_exception", "item %d %r: %s: %s" % (idx, item, type(exc).__name__, exc))
                break
            continue
        if item[0] == "at":
            line = "@%s %s" % (item[1], item[2])
        else:
            if not bounded(item[1]):
                continue
            line = item[1]
        if w == "N":
            line = "N%d %s" % (idx, line)
        elif w in (" ;c",):
            if not line.upper().startswith(("M117",)):
                line += w
        line += w if w in ("\r\n", "\n") else "\n"
        try:
            res = sp.process_line(line)
            if not (res is None or (isinstance(res, str) and res)):
                bad("c09_stream_shape", "line %d %r: process_line returned %r" % (idx, line, res))
                break
        except Exception as exc:  # pylint: disable=broad-except
            bad("c09_stream_exception", "line %d %r: %s: %s" % (idx, line, type(exc).__name__, exc))
            break
    return out, {"nontrivial": bool(cl), "classes": sorted(cl), "extra": {"skipped_unbounded_arcs": skipped},
                 "sample": {"regions": case["regions"], "prog": [i[1] if i[0] == "g" else i for i in case["prog"]]}}


def selftest():
    plugin_harness.selftest()
    assert shape_ok(None) and shape_ok((None,)) and shape_ok(["G1"]) and not shape_ok([]) and not shape_ok([""]) and not shape_ok(("G1",))


# ---------------------------------------------------------------- secondary engine (thorough tier)
def fuzz_decode(data):
    """Bytes -> case through a data provider: region set, then commands from the same grammar pools."""
    if len(data) < 4:
        return None
    pos = [0]

    def take(n=1):
        v = 0
        for _ in range(n):
            v = v * 256 + (data[pos[0]] if pos[0] < len(data) else 0)
            pos[0] += 1
        return v

    regions = []
    for k in range(take() % 3):
        a, b, w = 3 + take() % 40, 3 + take() % 40, take() % 12
        regions.append({"type": "rect", "x1": a + 0.25, "y1": b + 0.25, "x2": a + w + 0.25, "y2": b + w + 0.25, "id": "r%d" % k}
                       if take() % 2 else {"type": "circ", "cx": a + 0.1, "cy": b + 0.3, "r": w + 0.2, "id": "r%d" % k})
    cfg = {"g90e": bool(take() % 2)}
    prog = [["g", "G28"]]
    while pos[0] < len(data) and len(prog) < 30:
        k = take() % 8
        if k == 0:
            prog.append(["g", ARC_TEMPLATES[take() % len(ARC_TEMPLATES)]])
        elif k == 1:
            prog.append(["g", MISC_TEMPLATES[take() % len(MISC_TEMPLATES)]])
        elif k == 2:
            prog.append(["at", "ExcludeRegion", ["off", "on", "", "x"][take() % 4]])
        else:
            cmd = CODES[take() % len(CODES)]
            for _ in range(take() % 5):
                letter = LETTERS[take() % len(LETTERS)]
                form = take() % 6
                if form == 0:
                    val = ""
                elif form == 1:
                    val = str(take(2) % 600 / 10.0)
                elif form == 2:
                    val = "-" + str(take() % 60)
                elif form == 3:
                    val = str(take(4)) + str(take(4))
                elif form == 4:
                    val = "." + str(take(3))
                else:
                    val = str(take() % 60)
                cmd += " " + letter + val
            prog.append(["g", cmd])
    return {"config": cfg, "regions": regions, "prog": prog}


def extra_engines(tier, col, seedval):
    if tier != "thorough":
        return
    from vlib import fuzz
    for corpus in ((), (bytes([1, 10, 10, 8, 1, 0, 4, 1, 2, 30, 4, 1, 1, 150, 4, 1, 1, 160, 3, 6, 2, 0, 4, 1, 1, 200]),)):
        res = fuzz.campaign("C09", 20000, seedval, corpus)
        col.extra["atheris_available"] += int(res["available"])
        col.extra["atheris_execs"] += res["execs"]
        col.extra["atheris_distinct_nontrivial"] += res["nontrivial"]
        if res["failing_case"]:
            case, findings = res["failing_case"]
            col.note(case, findings, {"nontrivial": True})
            from vlib.runner import Failure
            raise Failure("atheris: " + findings[0]["msg"])
