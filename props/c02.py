"""C02 - Transparency: a print that never touches a region is forwarded verbatim."""
from hypothesis import strategies as st

from vlib import env, core, gen, asserts, printer, gread, geom, kf  # noqa: F401

ID = "C02"
BUDGET = {"quick": 1200, "thorough": 16000}
PROFILE = gen.profile(retract="wild", rebase=True, reg_events=False, exact=False, arc_r=True, arc_rel=True,
                      e_rel_ok=True, g10pl=True, visits=False, scripts=True, at_w=3, offon=3)
RULE = ("The path is generated first (moves, I/J and R arcs incl. under G91, matched/unmatched/combined E-only and G10/G11 "
        "retractions, G10 with P/L, G92 X/Y/Z/E in absolute mode, G20/G21, G90/G91 incl. relative extrusion when G90 influences "
        "the extruder, G28, configured extended and unknown codes, non-enabling @-commands); then the regions are placed by "
        "construction: (none) no regions, (clear) up to 3 regions fitted into the space left free by every visited point and the "
        "bounding boxes of the arcs' full circles with 0.25 mm clearance, (disabled) regions anywhere but '@ExcludeRegion off' "
        "precedes the first move and nothing re-enables. Oracle: identity of the output stream. Non-trivial = at least one region "
        "(or the disabled mode), at least one retract/recover and at least one extruding move. Distinct by SHA-1 of the case.")
ASSUMPTIONS = [
    "regions are kept 0.25 mm (plus the sample spacing) clear of every point the reference printer visits and of the true path of every arc (dense samples); they may lie inside an arc's circle or on the part of the circle the arc does not travel",
    "G92 X/Y/Z is only issued in absolute positioning; M206 and M82/M83 are not generated",
]


def clear_of(reg, points, boxes):
    """0.25 mm clear of every visited point and of every true arc (dense samples, spacing added to the clearance)."""
    for (x, y) in points:
        if geom.signed_dist(reg, x, y) <= 0.25:
            return False
    for arc_pts, spacing in boxes:
        lim = 0.25 + spacing
        for (x, y) in arc_pts:
            if geom.signed_dist(reg, x, y) <= lim:
                return False
    return True


def fit(reg, points, boxes):
    """Shrink the candidate around its centre until it is clear; None if it cannot be placed."""
    for f in (1.0, 0.5, 0.25, 0.1):
        if reg["type"] == "rect":
            x1, y1, x2, y2 = geom.norm_rect(reg)
            cx, cy, w, h = (x1 + x2) / 2, (y1 + y2) / 2, (x2 - x1) * f / 2, (y2 - y1) * f / 2
            cand = dict(reg, x1=cx - w, y1=cy - h, x2=cx + w, y2=cy + h)
        else:
            cand = dict(reg, r=reg["r"] * f)
        if clear_of(cand, points, boxes):
            return cand
    return None


@st.composite
def cases(draw):
    p = PROFILE
    cfg = draw(gen.config(p))
    mode = draw(st.sampled_from(["none", "clear", "clear", "clear", "disabled", "disabled"]))
    delta = draw(st.sampled_from([0.508, 1.27, 2.54, 6.35, 12.7, 30.0]))     # (long Bowden retractions, a filament unload)
    fw = draw(st.booleans())
    abstract = draw(gen.ops(p))
    cands = [draw(gen.region(k, False)) for k in range(draw(st.integers(1, 3)))] if mode != "none" else []
    if mode == "clear":
        # open known findings: with regions in force, G92 X/Y/Z re-basing (wrong sign) and R-form arcs (wrong
        # centre) make the filter test other points than the printer visits; those ops are not rendered
        p = dict(p, rebase=not kf.is_open("KF-G92-XYZ-SIGN"), arc_r=not kf.is_open("KF-C16-RCENTRE"))
    rnd = gen.Renderer(cfg, [], p, delta, fw, False)
    rnd.no_enable = (mode == "disabled")     # in the other modes exclusion may be switched off and on again at will
    rnd.start()
    if mode == "disabled":
        # (the user may well send it while the print is paused)
        rnd.prog.insert(1, ["at", "ExcludeRegion", "off"] + (["paused"] if draw(st.integers(0, 2)) == 0 else []))
    for o in abstract:
        rnd.op(o)
    if draw(st.integers(0, 40)) == 0:
        # a long print: hundreds of distinct moves in the free corner, then the same ops again (many render to the same commands)
        rnd.raster(draw(st.sampled_from([300, 600, 1300])), "out", draw(st.booleans()))
        for o in abstract:
            rnd.op(o)
    rnd.prog = gen.respell_prog(rnd.prog, draw(st.sampled_from(["plain", "plain", "plain", "compact", "plus", "packed"])))
    regions = []
    if mode == "disabled":
        regions = cands
        # ... and regions right on the path: with exclusion off the print goes through them untouched
        pr = printer.Printer(bool(cfg.get("g90e")))
        visited = []
        for item in rnd.prog:
            if item[0] == "g":
                pr.execute(item[1])
                if pr.x is not None and (abs(pr.x) > 6 or abs(pr.y) > 6):
                    visited.append((pr.x, pr.y))
        for k in range(draw(st.integers(0, 3)) if visited else 0):
            vx, vy = visited[draw(st.integers(0, len(visited) - 1))]
            regions.append({"type": "rect", "x1": vx - 2.25, "y1": vy - 1.75, "x2": vx + 2.25, "y2": vy + 1.75, "id": "p%d" % k} if draw(st.booleans())
                           else {"type": "circ", "cx": vx + 0.1, "cy": vy - 0.2, "r": 2.2, "id": "p%d" % k})
    elif mode == "clear":
        # points and arc boxes visited by the unfiltered run
        pr = printer.Printer(bool(cfg.get("g90e")))
        pts, boxes, axis_cross, arcs = [(0.0, 0.0)], [], [], []
        upto = []          # per program item: how many points / arcs had been visited before it
        for item in rnd.prog:
            upto.append((len(pts), len(boxes)))
            if item[0] != "g":
                continue
            before = (pr.x, pr.y)
            stp = pr.execute(item[1])
            if pr.x is not None:
                if stp.kind == "linear" and before[0] is not None and (pr.x != before[0]) != (pr.y != before[1]):
                    # single-axis move: a filter whose other axis is stale would believe the tool is at (new, stale)
                    for q in pts[-12:]:
                        axis_cross.append((pr.x, q[1]) if pr.x != before[0] else (q[0], pr.y))
                pts.append((pr.x, pr.y))
            if stp.arc is not None:
                boxes.append(stp.arc.points())
                arcs.append(stp.arc)
        # "cross" candidates: small regions centred on (x of one visited point, y of another) - a place the tool never
        # goes, but where a filter with a stale axis would believe it is
        for k in range(draw(st.integers(0, 4))):
            if axis_cross and draw(st.booleans()):
                px = py = axis_cross[draw(st.integers(0, len(axis_cross) - 1))]
            else:
                px = pts[draw(st.integers(0, len(pts) - 1))]
                py = pts[draw(st.integers(0, len(pts) - 1))]
            if draw(st.booleans()):
                cands.append({"type": "rect", "x1": px[0] - 0.6, "y1": py[1] - 0.6, "x2": px[0] + 0.6, "y2": py[1] + 0.6, "id": "x%d" % k})
            else:
                cands.append({"type": "circ", "cx": px[0], "cy": py[1], "r": 0.8, "id": "x%d" % k})
        # regions hugging the bounding box of an arc's full circle: any planned point that strays from the true circle is caught
        for k in range(draw(st.integers(0, 3)) if arcs else 0):
            a = arcs[draw(st.integers(0, len(arcs) - 1))]
            a1, b1, a2, b2 = a.cx - a.r, a.cy - a.r, a.cx + a.r, a.cy + a.r
            kind = draw(st.integers(0, 6))
            g = 0.3
            if kind < 4:
                hug = [(a1 - g - 4, b1, a1 - g, b2), (a2 + g, b1, a2 + g + 4, b2), (a1, b1 - g - 4, a2, b1 - g), (a1, b2 + g, a2, b2 + g + 4)][kind]
                cands.append({"type": "rect", "x1": hug[0], "y1": hug[1], "x2": hug[2], "y2": hug[3], "id": "h%d" % k})
            elif kind == 4:
                # on the part of the circle the arc does NOT travel (opposite its midpoint)
                import math
                mid = a.a0 + a.sweep / 2 + math.pi
                cands.append({"type": "circ", "cx": a.cx + a.r * math.cos(mid), "cy": a.cy + a.r * math.sin(mid), "r": min(2.0, a.r * 0.6), "id": "o%d" % k})
            elif kind == 5:
                cands.append({"type": "circ", "cx": a.cx, "cy": a.cy, "r": a.r * 0.7, "id": "c%d" % k})     # inside the circle
            else:
                import math
                beyond = a.a0 + a.sweep * 1.15       # just past the arc's end, on the circle
                cands.append({"type": "circ", "cx": a.cx + a.r * math.cos(beyond), "cy": a.cy + a.r * math.sin(beyond), "r": 0.6, "id": "e%d" % k})
        tiles = []
        if draw(st.integers(0, 3)) == 0:
            # "dense": the free space around the path is tiled with small regions, so a filter whose tracked position strays
            # from the true path by a millimetre or two (stale cache, wrong frame, drift) runs into one
            xs, ys = [q[0] for q in pts], [q[1] for q in pts]
            for a in arcs:
                xs += [a.cx - a.r, a.cx + a.r]
                ys += [a.cy - a.r, a.cy + a.r]
            x0, x1 = max(min(xs) - 6, -40.0), min(max(xs) + 6, 80.0)
            y0, y1 = max(min(ys) - 6, -40.0), min(max(ys) + 6, 80.0)
            step = max(2.5, ((x1 - x0) * (y1 - y0) / 60.0) ** 0.5)
            off = draw(st.sampled_from([0.0, 0.7, 1.3]))
            k, gx = 0, x0 + off
            while gx < x1:
                gy = y0 + off
                while gy < y1:
                    if abs(gx) > 3 or abs(gy) > 3:
                        tiles.append({"type": "rect", "x1": gx, "y1": gy, "x2": gx + step * 0.8, "y2": gy + step * 0.8, "id": "t%d" % k})
                        k += 1
                    gy += step
                gx += step
        regions += [t for t in tiles if clear_of(t, pts, boxes)]       # (tiles are kept or dropped, not shrunk)
        for c in cands:
            f = fit(c, pts, boxes)
            if f is not None and (f["type"] == "circ" or (f["x1"] > 2 or f["y1"] > 2 or True)):
                regions.append(f)
        # a region edited mid-print: it starts larger (clear of everything visited up to then) and is replaced, under the same
        # id, by its final geometry (clear of the whole path) - the destinations stay clear of the region set in force throughout
        if regions and len(rnd.prog) > 6 and draw(st.integers(0, 2)) == 0:
            k = draw(st.integers(3, len(rnd.prog) - 1))
            ridx = draw(st.integers(0, len(regions) - 1))
            fin = regions[ridx]
            f = draw(st.sampled_from([1.5, 2.0, 3.0]))
            if fin["type"] == "rect":
                cx, cy, w, h = (fin["x1"] + fin["x2"]) / 2, (fin["y1"] + fin["y2"]) / 2, abs(fin["x2"] - fin["x1"]) * f / 2 + 0.5, abs(fin["y2"] - fin["y1"]) * f / 2 + 0.5
                big = dict(fin, x1=cx - w, y1=cy - h, x2=cx + w, y2=cy + h)
            else:
                big = dict(fin, r=fin["r"] * f + 0.5)
            np_, nb_ = upto[k]
            if clear_of(big, pts[:np_], boxes[:nb_]) and geom.signed_dist(big, 0.0, 0.0) > 3.0:
                regions[ridx] = big
                rnd.prog.insert(k, ["rereg", fin])
        if regions and draw(st.integers(0, 3)) == 0:
            # the regions are not there from the start: the user draws them (all of them) at some point of the print - they are
            # clear of the whole path, so the print still never touches one
            first_edit = [i for i, it in enumerate(rnd.prog) if it[0] == "rereg"]
            k = draw(st.integers(2, first_edit[0] if first_edit else len(rnd.prog)))
            late = [["reg", r] for r in regions]
            rnd.prog[k:k] = late
            regions = []
    return {"config": cfg, "regions": regions, "prog": rnd.prog, "via": draw(st.sampled_from(["direct", "direct", "plugin"])),
            "meta": {"mode": mode, "fw": fw, "excluded_known": rnd.excluded_known}}


def strategy(tier):
    return cases()


def run_case(case, strict=False):  # pylint: disable=unused-argument
    tr = core.run(case)
    out = asserts.exceptions(tr)
    cl = set(["mode_" + case.get("meta", {}).get("mode", "?")])
    cycles = extr = 0
    for it in tr.items:
        if it.kind == "g":
            if it.out != [it.cmd]:
                out.append(asserts.F("c02_not_verbatim", it, "command was not forwarded unchanged: %r (raw result %r)" % (it.out, it.raw)))
            stp = it.u_step
            if stp.kind in ("fwretract", "fwrecover") or (stp.kind == "linear" and stp.dfil < 0):
                cycles += 1
            if stp.is_move and stp.dfil > 0:
                extr += 1
            if stp.arc is not None:
                cl.add("arc")
            if stp.kind == "setpos":
                cl.add("g92")
            if it.u_after[core.U] != 1.0:
                cl.add("inch")
            if not it.u_after[core.ABS]:
                cl.add("relative")
            if not it.u_after[core.EABS] and stp.dfil:
                cl.add("relative_extrusion")
            if stp.read is not None and stp.read.code == "G10" and (stp.read.has("P") or stp.read.has("L")):
                cl.add("g10_with_P_or_L")
        elif it.kind == "at":
            if it.out:
                out.append(asserts.F("c02_at_sends", it, "@-command sent %r although no episode can be open" % (it.out,)))
    if case["regions"] or any(i[0] == "reg" for i in case["prog"]):
        cl.add("has_regions")
    if any(i[0] == "reg" for i in case["prog"]):
        cl.add("regions_drawn_mid_print")
    if case.get("via") == "plugin":
        cl.add("via_plugin_hooks")
    if any(i[0] == "rereg" for i in case["prog"]):
        cl.add("region_edited_mid_print")
    for k in ("g90e", "ext", "debug"):
        if case["config"].get(k):
            cl.add("cfg_" + k)
    nontrivial = ("has_regions" in cl or case.get("meta", {}).get("mode") == "disabled") and cycles >= 1 and extr >= 1
    return out, {"nontrivial": nontrivial, "classes": sorted(cl), "excluded_known": case.get("meta", {}).get("excluded_known", 0),
                 "sample": {"regions": case["regions"], "mode": case.get("meta", {}).get("mode"),
                            "prog": [i[1] if i[0] == "g" else i for i in case["prog"]]}}


def selftest():
    printer.selftest()
    gread.selftest()
