"""C11 - Filtering is gated by the print lifecycle (stateful, model-based)."""
import copy

from hypothesis import strategies as st
from hypothesis.stateful import RuleBasedStateMachine, rule, initialize

from vlib import env, core, gen, geom, plugin_harness, stateful  # noqa: F401
from vlib.plugin_harness import Harness
from octoprint_excluderegion.GcodeHandlers import GcodeHandlers

ID = "C11"
BUDGET = {"quick": 1500, "thorough": 6000}
STEPS = {"quick": 40, "thorough": 80}
RULE = ("RuleBasedStateMachine over the plugin: every relevant OctoPrint event (started, paused, resumed, done, failed, cancelling, "
        "cancelled, error, file selected, settings updated, unrelated ones), the three hooks with generated arguments (moves into "
        "and out of a region, retractions, deferred codes, @-commands, script names/types), settings toggles and API region adds, "
        "in any interleaving. Reference model: active flag and region-id list. One evaluation = one generated history of up to 40 "
        "(80) steps. Non-trivial = the history contains at least one hook call while active, one while inactive, and one print-end "
        "event. Distinct by SHA-1 of the op list.")
ASSUMPTIONS = [
    "a print-end event delivered while no print is active is left unspecified (the model re-synchronises its region list there)",
    "a changed setting takes effect at the next SETTINGS_UPDATED event (as OctoPrint delivers it)",
    "'not tracked' = deep snapshot of the tracking state read from public attributes is unchanged",
]

END_EVENTS = ("PRINT_DONE", "PRINT_FAILED", "PRINT_CANCELLING", "PRINT_CANCELLED", "ERROR")
OTHER_EVENTS = ("PRINT_PAUSED", "PRINT_RESUMED", "CONNECTED", "DISCONNECTED", "FILE_DESELECTED", "UPLOAD", "Z_CHANGE", "HOME",
                "POSITION_UPDATE", "PRINTER_STATE_CHANGED", "FILE_ADDED")
REGION = {"type": "RectangularRegion", "x1": 10.25, "y1": 10.25, "x2": 20.25, "y2": 20.25}
GCODES = ["G28", "G1 X1 Y1 Z0.2 F3000", "G1 X15 Y15", "G1 X15.5 Y16 E1", "G1 X30 Y30", "G1 X5 Y5 E2", "G1 E-1 F1800", "G1 E0", "G10", "G11",
          "M117 hello", "M204 S500", "G4 P10", "G20", "G21", "G91", "G90", "G92 E0", "M106 S255", "G1 Z1", "G2 X20 Y15 I2.5 J0", "T0",
          "M400", "G1 X12 Y12 F1200"]


PAYLOADS = [
    {"name": "a.gcode", "path": "a.gcode", "origin": "local", "size": 1234, "owner": "admin", "user": "admin"},
    {"name": "a.gcode", "path": "a.gcode", "origin": "local", "size": 1234, "owner": "admin", "user": "admin"},
    {"name": "b.gcode", "path": "sub/b.gcode", "origin": "local"},
    {"name": "a.gco", "path": "a.gco", "origin": "sdcard", "size": 99},
    {"name": "a.gcode", "path": "a.gcode", "origin": "local", "time": 12.5, "reason": "cancelled"},
    None,
]


def as_boolean(value):
    """How OctoPrint's settings layer reads a boolean setting (Settings.get_boolean): a stored string counts by its spelling."""
    if isinstance(value, str):
        return value.lower() in ("true", "yes", "y", "1", "on")
    return bool(value)


class Stepper(object):
    def __init__(self, case):
        self.h = Harness(case.get("config", {}))
        self.h.swallow_event_errors = True      # as OctoPrint's event bus does
        self.active = False
        self.ids = []
        self.clear_effective = bool(case.get("config", {}).get("clear_after_print"))
        self.twin = None
        self.sync_twin()
        self.hooks_active = self.hooks_inactive = self.ends = 0
        self.nreg = 0

    def sync_twin(self):
        self.twin = GcodeHandlers(copy.deepcopy(self.h.state), env.make_logger())
        self.twin_comm = core.Comm()

    def unhomed(self):
        """An axis position is unknown now, or was when the open episode began (commands issued before homing)."""
        pos = self.h.state.position
        last = self.h.state.lastPosition
        return any(a.current is None for a in (pos.X_AXIS, pos.Y_AXIS, pos.Z_AXIS)) or (
            last is not None and any(a.current is None for a in (last.X_AXIS, last.Y_AXIS, last.Z_AXIS)))

    def info(self):
        cl = []
        if self.hooks_active:
            cl.append("hook_while_active")
        if self.hooks_inactive:
            cl.append("hook_while_inactive")
        if self.ends:
            cl.append("print_end_event")
        return {"nontrivial": bool(self.hooks_active and self.hooks_inactive and self.ends), "classes": cl}

    def step(self, op):  # noqa: C901  pylint: disable=too-many-branches,too-many-statements
        out = []
        h = self.h
        k = op[0]

        def bad(tag, msg):
            out.append({"tag": tag, "msg": "op %r: %s" % (op, msg)})

        before = core.state_snapshot(h.state)
        if k == "burst":
            for i in range(op[1]):
                if op[2] == "pause":
                    h.event("PRINT_PAUSED")
                    h.event("PRINT_RESUMED")
                else:
                    h.event(OTHER_EVENTS[i % len(OTHER_EVENTS)])
            self.sync_twin()
        elif k == "event":
            name = op[1]
            was_active = self.active
            h.event(name, copy.deepcopy(op[2]) if len(op) > 2 else None)
            if name == "PRINT_STARTED":
                self.active = True
            elif name in END_EVENTS:
                self.active = False
                self.ends += 1
                if was_active:
                    if self.clear_effective:
                        self.ids = []
                else:
                    self.ids = [r["id"] for r in h.regions()]    # unspecified: re-synchronise
            elif name == "FILE_SELECTED":
                self.ids = []
            elif name == "SETTINGS_UPDATED":
                self.clear_effective = as_boolean(h.values.get("clearRegionsAfterPrintFinishes"))
            self.sync_twin()
        elif k == "setting":
            h.values[op[1]] = op[2]          # takes effect at the next SETTINGS_UPDATED
        elif k == "add":
            data = dict(REGION, id="r%d" % self.nreg)
            data["x1"] += op[1]
            data["x2"] += op[1] + op[2]
            self.nreg += 1
            rv = h.api("addExcludeRegion", data)
            if rv is None:
                self.ids.append(data["id"])
            self.sync_twin()
        elif k == "g":
            try:
                raw = h.gcode_raw(op[1], op[2] if len(op) > 2 else "file")
            except Exception as exc:  # pylint: disable=broad-except
                raw = ("exception", type(exc).__name__)
            if not self.active:
                self.hooks_inactive += 1
                if raw is not None:
                    bad("c11_altered_while_inactive", "G-code hook returned %r while no print is active" % (raw,))
                if core.state_snapshot(h.state) != before:
                    bad("c11_tracked_while_inactive", "G-code hook changed the tracking state while no print is active")
            else:
                self.hooks_active += 1
                rd = core.gread.read(op[1])
                try:
                    want = self.twin.handleGcode(op[1], rd.code if rd.code[0] != "T" else "T", None if rd.sub is None else str(rd.sub)) if rd else None
                except Exception as exc:  # pylint: disable=broad-except
                    want = ("exception", type(exc).__name__)
                if raw != want:
                    bad("c11_gating_alters_active", "G-code hook returned %r while active, the ungated filter gives %r" % (raw, want))
        elif k == "at":
            try:
                rv, sent = h.at(op[1], op[2])
            except TypeError:
                # un-homed axes (position unknown): outside every listed domain; the gating itself is still judged
                if self.unhomed() and self.active:
                    self.sync_twin()
                    return out
                raise
            if not self.active:
                self.hooks_inactive += 1
                if sent:
                    bad("c11_altered_while_inactive", "@-command hook sent %r while no print is active" % (sent,))
                if core.state_snapshot(h.state) != before:
                    bad("c11_tracked_while_inactive", "@-command hook changed the tracking state while no print is active")
            else:
                self.hooks_active += 1
                self.twin_comm.sent = []
                self.twin.handleAtCommand(self.twin_comm, op[1], op[2])
                if sent != self.twin_comm.sent:
                    bad("c11_gating_alters_active", "@-command hook sent %r while active, the ungated filter sends %r" % (sent, self.twin_comm.sent))
            if rv is not None:
                bad("c11_at_hook_result", "@-command queuing hook returned %r (it must not alter the command)" % (rv,))
        elif k == "script":
            try:
                rv = h.script(op[1], op[2])
            except TypeError:
                if self.unhomed() and self.active:
                    self.sync_twin()
                    return out
                raise
            if not self.active:
                self.hooks_inactive += 1
                if rv is not None:
                    bad("c11_altered_while_inactive", "script hook contributed %r while no print is active" % (rv,))
                if core.state_snapshot(h.state) != before:
                    bad("c11_tracked_while_inactive", "script hook changed the tracking state while no print is active")
            else:
                self.hooks_active += 1
                expect = (op[1] == "gcode" and op[2] == "afterPrintDone" and self.twin.state.excluding)
                if expect and rv is None:
                    bad("c11_gating_alters_active", "script hook contributed nothing although a print is active and an episode is open")
                if not expect and rv is not None:
                    bad("c11_script_other", "script hook contributed %r for %s/%s" % (rv, op[1], op[2]))
                self.sync_twin()
        # invariants after every step
        if bool(h.plugin.isActivePrintJob) != self.active:
            bad("c11_active_flag", "plugin reports active=%r, the lifecycle model says %r" % (h.plugin.isActivePrintJob, self.active))
        ids = [r["id"] for r in h.regions()]
        if ids != self.ids:
            bad("c11_regions", "region ids are %r, the lifecycle model says %r" % (ids, self.ids))
        return out


def run_case(case, strict=False):  # pylint: disable=unused-argument
    return stateful.replay(__import__("props.c11", fromlist=["x"]), case)


def machine(tier, col):  # pylint: disable=unused-argument
    import props.c11 as mod

    class Lifecycle(stateful.MachineMixin, RuleBasedStateMachine):
        MOD = mod
        COL = col

        @initialize(clear=st.booleans(), debug=st.booleans())
        def setup(self, clear, debug):
            self._init_case({"config": {"clear_after_print": clear, "debug": debug}})

        @rule(name=st.sampled_from(("PRINT_STARTED",) * 3 + END_EVENTS + ("FILE_SELECTED", "SETTINGS_UPDATED") + OTHER_EVENTS),
              home=st.integers(0, 4))
        def event(self, name, home):
            self.do(["event", name])
            if name == "PRINT_STARTED" and home:
                self.do(["g", "G28"])
                self.do(["g", "G1 X1 Y1 Z0.2 F3000"])

        @rule(name=st.sampled_from(("PRINT_STARTED", "PRINT_STARTED", "FILE_SELECTED", "FILE_SELECTED") + END_EVENTS),
              payload=st.sampled_from(PAYLOADS), home=st.integers(0, 4))
        def event_with_payload(self, name, payload, home):
            """The payload OctoPrint attaches (file name / path / origin ...): the lifecycle does not depend on it."""
            self.do(["event", name, payload])
            if name == "PRINT_STARTED" and home:
                self.do(["g", "G28"])
                self.do(["g", "G1 X1 Y1 Z0.2 F3000"])

        @rule(cmd=st.sampled_from(GCODES), source=st.sampled_from(["file", "file", "api", "plugin:other", "none"]))
        def gcode(self, cmd, source):
            self.do(["g", cmd, source])

        @rule(cmd=st.sampled_from(GCODES[:6]))
        def gcode_moves(self, cmd):
            self.do(["g", cmd])

        @rule(params=st.sampled_from(["off", "on", "disable", "enable", "foo", ""]), cmd=st.sampled_from(["ExcludeRegion", "ExcludeRegion", "Other"]))
        def atcmd(self, params, cmd):
            self.do(["at", cmd, params])

        @rule(typ=st.sampled_from(["gcode", "gcode", "gcode", "other"]),
              name=st.sampled_from(["afterPrintDone", "afterPrintDone", "beforePrintStarted", "afterPrintCancelled"]))
        def script(self, typ, name):
            self.do(["script", typ, name])

        @rule(end=st.sampled_from(END_EVENTS), typ=st.sampled_from(["gcode", "gcode", "other"]),
              name=st.sampled_from(["afterPrintDone", "afterPrintDone", "afterPrintCancelled"]), first=st.booleans())
        def episode_then_end(self, end, typ, name, first):
            """Enter a region (if a print is active this opens an episode), end the print, invoke the script hook."""
            if not self.stepper.ids:
                self.do(["add", 0, 0])
            self.do(["g", "G1 X15 Y15"])
            self.do(["g", "M117 inside"])
            if first:
                self.do(["script", typ, name])
            self.do(["event", end])
            self.do(["script", typ, name])
            self.do(["g", "G1 X16 Y16 E3"])

        @rule(val=st.sampled_from([True, False, True, False, "false", "true", "no", "0", "on", 1, 0]), send=st.booleans(),
              rows=st.sampled_from([None, None, None,
                                    [{"gcode": "M117", "mode": "last", "description": None}],
                                    [{"gcode": "G4", "mode": "exclude", "description": ""}, {"gcode": "M73", "mode": "merge", "description": None}],
                                    []]))
        def toggle_clear(self, val, send, rows):
            """The setting as the settings layer may hold it (a boolean, or a string / number from a hand-edited config.yaml);
            the same save may carry other changed settings (extended G-code rows, a description may be null)."""
            self.do(["setting", "clearRegionsAfterPrintFinishes", val])
            if rows is not None:
                self.do(["setting", "extendedExcludeGcodes", rows])
            if send:
                self.do(["event", "SETTINGS_UPDATED"])

        @rule(n=st.sampled_from([12, 55, 120]), what=st.sampled_from(["pause", "pause", "other"]), go=st.integers(0, 9))
        def burst(self, n, what, go):
            """A long print (rare): dozens of pause / resume cycles or unrelated events in a row - none of them ends or starts it."""
            if go == 0:
                self.do(["burst", n, what])

        @rule(val=st.booleans())
        def toggle_other(self, val):
            self.do(["setting", "mayShrinkRegionsWhilePrinting", val])

        @rule(dx=st.integers(0, 30), w=st.integers(0, 5))
        def add_region(self, dx, w):
            self.do(["add", dx, w])

    return Lifecycle


def selftest():
    plugin_harness.selftest()
