"""C16 - Arc moves are sampled faithfully (analytic circle geometry)."""
import math
import re

from hypothesis import strategies as st

from vlib import env, core, kf  # noqa: F401

ID = "C16"
BUDGET = {"quick": 6000, "thorough": 40000}
RULE = ("Hypothesis draws a start point in +-200, a centre direction, a radius log-uniform in [0.2, 500], a sweep in "
        "[1e-3, 2pi-1e-3] (or an exact full circle on dyadic coordinates), a direction and a form: I/J straight into planArc, R "
        "through computeArcCenterOffsets (R>0 for sweeps <= pi, R<0 beyond), and both end to end through handleGcode('G2/G3 ...') "
        "in absolute mm positioning with a region placed on the arc (deeper than the sampling resolution) or clear of the full "
        "circle. Oracle: analytic - points on the circle, equal signed angular steps summing to the commanded sweep, chords <= 1 "
        "unit, exact end point, |R| equidistance. Non-trivial = at least 3 sampled points. Distinct by SHA-1 of the case.")
ASSUMPTIONS = [
    "tolerances: on-circle 1e-6*max(1,r); angular step equality 1e-9 rad (last step, which lands on the given end point, 1e-6/r); chord 1+1e-9; |R| equidistance 1e-7*max(1,|R|)",
    "which of the two mirror centres the R form picks is not asserted (the statement does not say)",
    "float-fragile full circles (start + offset - start != offset) are outside the domain: full circles use dyadic coordinates",
]

TWO_PI = 2 * math.pi


@st.composite
def cases(draw):
    full = draw(st.integers(0, 9)) == 0
    form = draw(st.sampled_from(["IJ", "IJ", "R", "R"]))
    cw = draw(st.booleans())
    if full:
        sx = draw(st.integers(-1600, 1600)) / 8.0
        sy = draw(st.integers(-1600, 1600)) / 8.0
        i = draw(st.integers(-800, 800)) / 8.0
        j = draw(st.integers(-800, 800)) / 8.0
        if not (i or j):
            i = 2.5
        return {"form": "IJ", "cw": cw, "sx": sx, "sy": sy, "i": i, "j": j, "ex": sx, "ey": sy, "full": True,
                "e2e": draw(st.sampled_from(["none", "deep", "clear"])), "t": draw(st.floats(0.2, 0.8)),
                "new_print": draw(st.integers(0, 3)) == 0, "laps": draw(st.sampled_from([1, 2, 3]))}
    sx = draw(st.integers(-200000, 200000)) / 1000.0      # plain-decimal spellings for the positioning command
    sy = draw(st.integers(-200000, 200000)) / 1000.0
    r = math.exp(draw(st.floats(math.log(0.2), math.log(500))))
    a0 = draw(st.floats(0, TWO_PI))
    sweep = draw(st.one_of(st.floats(1e-3, TWO_PI - 1e-3),
                           st.sampled_from([math.pi / 2, math.pi, 3 * math.pi / 2, 0.01, 6.2, 6.28, TWO_PI - 1e-3, TWO_PI - 2e-3, 1e-3])))
    if draw(st.integers(0, 4)) == 0:
        # a short arc: a few length units long whatever the radius (nearly flat for large radii)
        sweep = min(draw(st.floats(1.05, 6.0)) / r, TWO_PI - 1e-3)
    axis = draw(st.integers(0, 5 if form == "IJ" else 2)) == 0
    if axis:
        # chord aligned with an axis: symmetric about the x or y direction through the centre
        mid = draw(st.sampled_from([0.0, math.pi / 2, math.pi, 3 * math.pi / 2]))
        a0 = mid + (sweep / 2 if cw else -sweep / 2)
    cx, cy = sx - r * math.cos(a0), sy - r * math.sin(a0)
    a1 = a0 + (-sweep if cw else sweep)
    ex, ey = cx + r * math.cos(a1), cy + r * math.sin(a1)
    if axis:
        if abs(math.cos((a0 + a1) / 2)) > 0.5:
            ex = sx         # vertical chord
        else:
            ey = sy         # horizontal chord
    case = {"form": form, "cw": cw, "sx": sx, "sy": sy, "ex": ex, "ey": ey, "full": False,
            "e2e": draw(st.sampled_from(["none", "deep", "clear"])), "t": draw(st.floats(0.2, 0.8)),
            "inch": draw(st.integers(0, 3)) == 0}
    if draw(st.integers(0, 2)) == 0:
        # the same handlers object has planned an arc with the identical arguments before, from another start point
        case["prior_t"] = draw(st.floats(0.3, 6.0))
    if draw(st.integers(0, 3)) == 0:
        case["new_print"] = True       # a previous print ended elsewhere; the state was reset (PRINT_STARTED), the handlers live on
    case["spell"] = draw(st.sampled_from(["plain", "plain", "compact", "packed_e"]))
    case["many"] = draw(st.sampled_from([0] * 50 + [140, 560]))           # a long print before, on the same handlers
    if not case.get("inch") and draw(st.integers(0, 5)) == 0:
        case["switch_at_start"] = True      # the tool is positioned in millimetres, then G20, then the arc at once
    if form == "IJ":
        case["i"], case["j"] = cx - sx, cy - sy
    else:
        case["R"] = r if sweep <= math.pi else -r
    return case


def strategy(tier):
    return cases()


def fmt6(v):
    t = ("%.6f" % v).rstrip("0").rstrip(".")
    return t if t not in ("", "-", "-0") else "0"


def angle_diff(a, b):
    """a - b wrapped into (-pi, pi]."""
    d = (a - b) % TWO_PI
    if d > math.pi:
        d -= TWO_PI
    return d


def run_case(case, strict=False):  # noqa: C901  pylint: disable=too-many-branches,too-many-locals,too-many-statements
    out = []
    cl = set([case["form"], "cw" if case["cw"] else "ccw"])
    excluded = 0

    def bad(tag, msg):
        out.append({"tag": tag, "msg": msg})

    flt = core.DirectFilter({}, [])
    if case.get("new_print"):
        for c in ("G28", "G1 X150.05 Y180.99 Z0.2 F3000", "G91", "G1 X1"):
            flt.gcode(c)
        flt.state.resetState()
        cl.add("after_a_previous_print")
    unit = 1.0
    if case.get("inch") and int(case["t"] * 1000) % 2:
        flt.gcode("G20")          # (an inch file may well select its units before it homes)
    flt.gcode("G28")
    if case.get("inch"):
        # the same numbers in inches: "one length unit" is then one inch (the statement speaks of length units)
        flt.gcode("G20")
        unit = 25.4
        cl.add("inch")
    if case.get("switch_at_start"):
        # positioned in mm at the point whose inch coordinates are (sx, sy) - up to the 6 decimals written - then G20
        cl.add("unit_switch_right_before_arc")
        mx, my = fmt6(case["sx"] * 25.4), fmt6(case["sy"] * 25.4)
        flt.gcode("G1 X%s Y%s Z0.2 F3000" % (mx, my))
        flt.gcode("G20")
        unit = 25.4
        case = dict(case, sx=float(mx) / 25.4, sy=float(my) / 25.4, inch=True, full=False if not case.get("full") else True)
        if case.get("full"):
            case["ex"], case["ey"] = case["sx"], case["sy"]
    else:
        flt.gcode("G1 X%r Y%r Z0.2 F3000" % (case["sx"], case["sy"]))
    sx, sy, ex, ey, cw = case["sx"], case["sy"], case["ex"], case["ey"], case["cw"]
    h = flt.handlers
    if case.get("many") and not case.get("full"):
        # the arc under test has been planned once, then many distinct other arcs and moves, long ago
        cl.add("after_many_commands")
        try:
            if case["form"] == "R":
                pi_, pj_ = h.computeArcCenterOffsets(ex, ey, case["R"], cw)
            else:
                pi_, pj_ = case["i"], case["j"]
            if pi_ or pj_:
                h.planArc(ex, ey, pi_, pj_, cw)
            words_ = (" X%s Y%s I%s J%s" % (fmt6(ex), fmt6(ey), fmt6(pi_), fmt6(pj_)))
            flt.gcode(("G2" if cw else "G3") + words_)
            for n in range(case["many"]):
                flt.gcode("G1 X%d.%02d Y%d" % (n % 40, n % 100, n // 40))
                flt.gcode("G2 X%d.%02d Y%d I%d.5 J0" % (n % 40 + 3, n % 100, n // 40, 1 + n % 3))
                h.planArc(n * 0.25, 5.0, 2.0 + (n % 7), 1.0, bool(n % 2))
        except Exception:  # pylint: disable=broad-except
            pass
        # the very command of long ago once more, from the same start point: it must end where it says
        try:
            flt.gcode("G1 X%s Y%s" % (fmt6(sx), fmt6(sy)))
            flt.gcode(("G2" if cw else "G3") + words_)
            pos_ = flt.state.position
            gx, gy = pos_.X_AXIS.nativeToLogical(), pos_.Y_AXIS.nativeToLogical()
            if (pi_ or pj_) and (abs(gx - float(fmt6(ex))) > 1e-6 * max(1.0, abs(ex)) or abs(gy - float(fmt6(ey))) > 1e-6 * max(1.0, abs(ey))):
                bad("c16_end_point", "after %d other commands the arc %r ends at (%r,%r) for the filter, commanded (%s,%s)" % (
                    case["many"] * 2, ("G2" if cw else "G3") + words_, gx, gy, fmt6(ex), fmt6(ey)))
        except Exception as exc:  # pylint: disable=broad-except
            bad("c16_exception", "repeating an arc after a long history raised %s: %s" % (type(exc).__name__, exc))
        flt.gcode("G1 X%s Y%s" % (fmt6(sx), fmt6(sy)))
        if float(fmt6(sx)) != sx or float(fmt6(sy)) != sy:
            flt.gcode("G1 X%r Y%r" % (sx, sy))
    if case.get("prior_t") is not None:
        # history: identical arguments, different start (the end point lies on the circle about that start + (i,j) as well)
        cl.add("same_arguments_planned_before")
        try:
            if case["form"] == "R":
                flt.gcode("G1 X%s Y%s" % (fmt6(sx + 3 * math.cos(case["prior_t"])), fmt6(sy + 3 * math.sin(case["prior_t"]))))
                pi_, pj_ = h.computeArcCenterOffsets(ex, ey, case["R"], cw)
                if pi_ or pj_:
                    h.planArc(ex, ey, pi_, pj_, cw)
            else:
                rho = math.hypot(case["i"], case["j"])
                a_ = math.atan2(sy + case["j"] - ey, sx + case["i"] - ex) + case["prior_t"]
                flt.gcode("G1 X%s Y%s" % (fmt6(ex + rho * math.cos(a_) - case["i"]), fmt6(ey + rho * math.sin(a_) - case["j"])))
                h.planArc(ex, ey, case["i"], case["j"], cw)
        except Exception:  # pylint: disable=broad-except
            pass
        flt.gcode("G1 X%r Y%r" % (sx, sy))
    diagonal = (sx != ex) and (sy != ey)
    if diagonal:
        cl.add("diagonal_chord")
    if case["form"] == "R":
        R = case["R"]
        try:
            i, j = h.computeArcCenterOffsets(ex, ey, R, cw)
        except Exception as exc:  # pylint: disable=broad-except
            bad("c16_exception", "computeArcCenterOffsets raised %s: %s" % (type(exc).__name__, exc))
            return out, {"nontrivial": False, "classes": sorted(cl)}
        chord = math.hypot(ex - sx, ey - sy)
        if chord > 2 * abs(R) * (1 - 1e-9) or chord == 0:
            # chord >= 2|R| (up to rounding): no such arc, or a semicircle whose executability depends on the last bit
            return out, {"nontrivial": False, "classes": sorted(cl | {"r_not_executable_or_borderline"})}
        if kf.is_open("KF-C16-RCENTRE") and not strict and diagonal:
            excluded += 1
            return out, {"nontrivial": False, "classes": sorted(cl | {"r_diagonal_excluded_known"}), "excluded_known": 1}
        tol = 1e-7 * max(1.0, abs(R))
        d_start = math.hypot(i, j)
        d_end = math.hypot(ex - (sx + i), ey - (sy + j))
        if abs(d_start - abs(R)) > tol or abs(d_end - abs(R)) > tol:
            bad("c16_r_centre_equidistant", "R form: start (%r,%r) end (%r,%r) R=%r %s -> offsets (%r,%r): distances to the centre are %r and %r" % (
                sx, sy, ex, ey, R, "cw" if cw else "ccw", i, j, d_start, d_end))
            return out, {"nontrivial": False, "classes": sorted(cl)}
    else:
        i, j = case["i"], case["j"]
    r = math.hypot(i, j)
    cx, cy = sx + i, sy + j
    try:
        pts = h.planArc(ex, ey, i, j, cw)
    except Exception as exc:  # pylint: disable=broad-except
        bad("c16_exception", "planArc raised %s: %s" % (type(exc).__name__, exc))
        return out, {"nontrivial": False, "classes": sorted(cl)}
    if len(pts) % 2 or not pts:
        bad("c16_shape", "planArc returned %d numbers" % len(pts))
        return out, {"nontrivial": False, "classes": sorted(cl)}
    pairs = [(pts[k], pts[k + 1]) for k in range(0, len(pts), 2)]
    # expected sweep from the inputs
    a0 = math.atan2(sy - cy, sx - cx)
    a1 = math.atan2(ey - cy, ex - cx)
    if case.get("full") or (sx == ex and sy == ey):
        want_sweep = -TWO_PI if cw else TWO_PI
        cl.add("full_circle")
    else:
        d = (a1 - a0) % TWO_PI
        want_sweep = d - TWO_PI if cw else d
        if want_sweep == 0:
            want_sweep = -TWO_PI if cw else TWO_PI
    if abs(want_sweep) > math.pi:
        cl.add("sweep_gt_pi")
    if pairs[-1] != (ex, ey):
        bad("c16_end_point", "last sampled point %r is not the commanded end point (%r,%r)" % (pairs[-1], ex, ey))
    n = len(pairs)
    tol_r = 1e-6 * max(1.0, r)
    prev = (sx, sy)
    prev_a = a0
    total = 0.0
    step0 = None
    for k, (x, y) in enumerate(pairs):
        dist = math.hypot(x - cx, y - cy)
        if abs(dist - r) > tol_r:
            bad("c16_on_circle", "point %d (%r,%r) is at distance %r from the centre, radius %r" % (k, x, y, dist, r))
            break
        ch = math.hypot(x - prev[0], y - prev[1])
        if ch > 1 + 1e-9:
            bad("c16_spacing", "points %d and %d are %r units apart" % (k - 1, k, ch))
            break
        a = math.atan2(y - cy, x - cx)
        step = angle_diff(a, prev_a)
        if n == 1:
            step = want_sweep
        elif abs(want_sweep) / n > math.pi - 1e-9:
            step = step if (step > 0) == (want_sweep > 0) else step + (TWO_PI if want_sweep > 0 else -TWO_PI)
        total += step
        if n > 1:
            if (step > 0) != (want_sweep > 0) and abs(step) > 1e-9:
                bad("c16_direction", "step %d advances by %r rad against the commanded direction (%s)" % (k, step, "cw" if cw else "ccw"))
                break
            if step0 is None:
                step0 = step
            else:
                tol_a = 1e-9 if k < n - 1 else max(1e-9, 1e-6 / max(r, 1e-9))
                if abs(step - step0) > tol_a:
                    bad("c16_equal_steps", "step %d advances by %r rad, the first step by %r" % (k, step, step0))
                    break
        prev, prev_a = (x, y), a
    if not out and abs(total - want_sweep) > 1e-6:
        bad("c16_sweep", "sampled points cover %r rad, commanded sweep %r" % (total, want_sweep))
    if not out and abs(want_sweep) * r > n * (1 + 1e-9):
        bad("c16_spacing", "%d points for an arc of length %r" % (n, abs(want_sweep) * r))
    # ---- end to end through the handler
    if not out and case["e2e"] != "none" and r <= 300:
        arc_len = abs(want_sweep) * r
        if case["form"] == "R":
            words = " X%s Y%s R%s" % (repr(ex), repr(ey), repr(case["R"]))
        elif case.get("full"):
            words = " I%s J%s" % (repr(i), repr(j))
            if int(case["t"] * 1000) % 2:
                # a complete circle may as well be written with its end point, which is its start point
                words = " X%s Y%s" % (repr(sx), repr(sy)) + words
                cl.add("full_circle_with_end_point")
        else:
            words = " X%s Y%s I%s J%s" % (repr(ex), repr(ey), repr(i), repr(j))
        if "e" not in words and "E" not in words:
            cmd = ("G2" if cw else "G3") + words
            if case.get("spell") == "packed_e" and "R" not in words:
                # no blanks at all and an E word right after the last number (G3X50Y70I0J10E2.5)
                cmd = cmd.replace(" ", "") + "E2.5"
            if case.get("spell") == "compact":
                # legal compact spelling: no leading zero ('.5', '-.25')
                cmd = re.sub(r"(?<![0-9.])(-?)0\.(?=[0-9])", r"\1.", cmd)
            if case["e2e"] == "deep" and arc_len >= 2.6:
                t = (1.15 + case["t"] * (arc_len - 2.3)) / arc_len
                a = a0 + want_sweep * t
                reg = {"type": "circ", "cx": (cx + r * math.cos(a)) * unit, "cy": (cy + r * math.sin(a)) * unit, "r": 1.05 * unit, "id": "deep"}
                if int(case["t"] * 1000) % 3 == 0:
                    # ... or the square around that point, its corners given in any order
                    o_ = int(case["t"] * 100) % 4
                    xs_, ys_ = [reg["cx"] - 1.05 * unit, reg["cx"] + 1.05 * unit], [reg["cy"] - 1.05 * unit, reg["cy"] + 1.05 * unit]
                    reg = {"type": "rect", "x1": xs_[o_ & 1], "x2": xs_[1 - (o_ & 1)], "y1": ys_[(o_ >> 1) & 1], "y2": ys_[1 - ((o_ >> 1) & 1)], "id": "deep"}
                    cl.add("e2e_deep_rect")
                f2 = core.DirectFilter({}, [reg])
                if case.get("new_print"):
                    for c in ("G28", "G1 X150.05 Y180.99 Z0.2 F3000", "G91", "G1 X1"):
                        f2.gcode(c)
                    f2.state.resetState()
                if unit != 1.0:
                    f2.gcode("G20")
                f2.gcode("G28")
                f2.gcode("G1 X%r Y%r Z0.2 F3000" % (sx, sy))
                if f2.state.excluding:
                    pass
                else:
                    # (a full circle ends where it began: the identical command may follow at once - several laps)
                    for lap in range(case.get("laps", 1) if case.get("full") else 1):
                        res = core.normalise(cmd, f2.gcode(cmd))
                        cl.add("e2e_deep")
                        if cmd in res:
                            bad("c16_deep_arc_forwarded", "%r (lap %d) from (%r,%r) passes through the centre of %r but was forwarded" % (cmd, lap + 1, sx, sy, reg))
                            break
                        # ... and suppressed or not, the filter has followed the arc to its end: what comes next starts there
                        p2 = f2.state.position
                        gx, gy = p2.X_AXIS.nativeToLogical(), p2.Y_AXIS.nativeToLogical()
                        if abs(gx - ex) > 1e-6 * max(1.0, abs(ex)) or abs(gy - ey) > 1e-6 * max(1.0, abs(ey)):
                            bad("c16_end_point", "after the suppressed arc %r the filter stands at (%r,%r), the arc ends at (%r,%r)" % (cmd, gx, gy, ex, ey))
                            break
                    if not out and int(case["t"] * 1000) % 2 == 0:
                        # a new file is selected (all regions gone), the same arc is printed again: nothing is in its way now
                        f2.state.resetState(True)
                        f2.gcode("G28")
                        if unit != 1.0:
                            f2.gcode("G20")
                        f2.gcode("G1 X%r Y%r Z0.2 F3000" % (sx, sy))
                        res = core.normalise(cmd, f2.gcode(cmd))
                        cl.add("e2e_regions_cleared")
                        if res != [cmd]:
                            bad("c16_clear_arc_altered", "%r after all regions were cleared was not forwarded verbatim: %r" % (cmd, res))
            elif case["e2e"] == "clear":
                reg = {"type": "rect", "x1": (cx + r + 1.5) * unit, "y1": (cy - r) * unit, "x2": (cx + r + 6) * unit, "y2": (cy + r) * unit, "id": "clear"}
                f2 = core.DirectFilter({}, [reg])
                f2.gcode("G28")
                if unit != 1.0:
                    f2.gcode("G20")
                f2.gcode("G1 X%r Y%r Z0.2 F3000" % (sx, sy))
                res = core.normalise(cmd, f2.gcode(cmd))
                cl.add("e2e_clear")
                if res != [cmd]:
                    bad("c16_clear_arc_altered", "%r whose full circle is clear of %r was not forwarded verbatim: %r" % (cmd, reg, res))
    return out, {"nontrivial": n >= 3, "classes": sorted(cl), "excluded_known": excluded}
