"""C07 - Commands synthesised by the filter are well-formed plain-decimal G-code."""
from vlib import env, core, gen, asserts, printer, gread, geom  # noqa: F401
from props import c06

ID = "C07"
BUDGET = {"quick": 2000, "thorough": 25000}
PROFILE = gen.profile(retract="matched", stress=True, home_mid=False, exact=False, arcs=1, ext_w=3, at_w=1)
RULE = ("C01/C06-style programs rendered with a numeric stress renderer: relative moves whose sums round off (0.1+0.2-0.3), "
        "extrusions of 1e-5..1e-10, coordinates of 1e15 and 1e22, tiny coordinates (1e-7, 1e-9), inch conversion of all of these, "
        "tiny feed rates, merged deferred commands with tiny (1e-7) and huge (1e16..1e25) parameters; all inside and outside "
        "episodes so that exits, retraction pairs, G92 re-syncs and merged commands carry such values. Every forwarded element "
        "that is neither the input command nor a configured script line is a synthesised command. Non-trivial = a synthesised "
        "command carries a value below 1e-4 or at least 1e16 in magnitude (where str(float) switches to exponent notation). "
        "Distinct by SHA-1 of the concrete case.")
ASSUMPTIONS = [
    "values that overflow to infinity (>= 309 digits) are not generated: the statement says finite numbers",
    "'intended values' of F words: the feed of a synthesised G0/G1, as the printer reads it in its current units, is the feed (mm/min) in force after the current program command for a re-positioning move, and that or the feed in force at one of the program's own E-only commands so far for a retraction / recovery (0 before the first F word)",
    "'intended values': the synthesised stream is executed on the reference printer with the firmware-style reader (a number ends at 'e'/'E'), and the C03/C04 relations (position, E coordinate) must hold with 1e-6 mm + 1e-9 relative tolerance; merged commands are compared with the C06 model value by value",
]


def strategy(tier):
    # thorough tier: programs of up to 100 ops (quick: 40)
    return gen.cases(dict(PROFILE, maxlen=100, long=15) if tier == "thorough" else PROFILE)


def run_case(case, strict=False):  # pylint: disable=unused-argument,too-many-branches
    tr = core.run(case)
    out = asserts.exceptions(tr)
    cfg = case.get("config", {})
    scripts = set((cfg.get("enter") or []) + (cfg.get("exit") or []))
    nontrivial = False
    cl = set()
    nsynth = 0
    modal = 0.0             # the feed rate (mm/min) in force after the current program item
    efeeds = set()          # ... and the one in force at each E-only command (retraction / recovery) of the program so far
    for it in tr.items:
        if it.u_after is not None:
            modal = it.u_after[10]
        elif it.u_before is not None:
            modal = it.u_before[10]
        if it.kind == "g" and it.u_step is not None and it.u_step.read is not None and it.u_step.read.code in ("G0", "G1") and not it.is_move:
            efeeds.add(modal)
        for cmd in it.out:
            if cmd == it.cmd or cmd in scripts:
                continue
            ext = cfg.get("ext") if cfg.get("ext") is not None else core.DEFAULT_EXT
            rd0 = gread.read(cmd) if isinstance(cmd, str) else None
            if rd0 is not None and rd0.code in ext and ext[rd0.code] in ("first", "last"):
                continue        # a deferred program command delivered verbatim, not synthesised
            nsynth += 1
            if not isinstance(cmd, str):
                out.append(asserts.F("c07_not_a_string", it, "forwarded element %r" % (cmd,)))
                continue
            ok, why, words = gread.wellformed(cmd)
            if not ok:
                out.append(asserts.F("c07_malformed", it, "synthesised %r: %s" % (cmd, why)))
                continue
            fw = gread.read(cmd, True)
            if fw is None or fw.exp_truncated:
                out.append(asserts.F("c07_firmware_reading", it, "synthesised %r is not read completely by a firmware-style reader" % (cmd,)))
                continue
            for letter, tok in words:
                if tok == "":
                    continue
                val = float(tok)
                if fw.get(letter) != val:
                    out.append(asserts.F("c07_firmware_reading", it, "synthesised %r: firmware reads %s=%r, the text says %r" % (cmd, letter, fw.get(letter), val)))
                if val != 0 and (abs(val) < 1e-4 or abs(val) >= 1e16):
                    nontrivial = True
                    cl.add("tiny_value" if abs(val) < 1e-4 else "huge_value")
            cl.add("synth_" + fw.code)
            if fw.code in ("G0", "G1") and fw.get("F") is not None and it.f_before is not None:
                # the speed of a synthesised move is one the program has asked for (in the units the printer is in)
                got = fw.get("F") * it.f_before[9]
                # a re-positioning move travels at the feed in force now; a retraction / recovery at the feed of the program's own
                want = set([modal]) if fw.get("E") is None else (efeeds | set([modal]))
                if not any(abs(got - f) <= 1e-9 * abs(f) + 1e-12 for f in want):
                    out.append(asserts.F("c07_feed", it, "synthesised %r: the printer (units x%r) moves at %r mm/min, intended %r" % (
                        cmd, it.f_before[9], got, sorted(want)[:6])))
                if it.f_before[9] != 1.0:
                    cl.add("synth_feed_in_inch_mode")
    if tr.pf.exp_reads:
        out.append({"tag": "c07_firmware_reading", "at": None, "msg": "%d numbers of the forwarded stream were cut at an exponent marker" % tr.pf.exp_reads})
    # intended values: relations between the two executions
    out += [f for f in asserts.c03(tr) if f["tag"] in ("c03_position",)]
    out += [f for f in asserts.c04(tr) if f["tag"] in ("c04_e_outside", "c04_e_coordinate", "c04_deposit")]
    # generated retraction / recovery pairs must move exactly the intended amount: depth relations of C05
    out += [f for f in asserts.c05(tr, bool(case.get("meta", {}).get("fw"))) if f["tag"] in ("c05_deeper", "c05_shallower", "c05_not_recovered", "c05_fw_params")]
    # merged deferred commands carry exactly the latest value of every parameter (C06 reference model)
    ext_cfg = cfg.get("ext") if cfg.get("ext") is not None else core.DEFAULT_EXT
    flush, _, _ = c06.check_trace(tr, ext_cfg, cfg.get("enter") or [], cfg.get("exit") or [])
    out += [dict(f, tag="c07_merged_value") for f in flush if f["tag"] == "c06_flush"]
    cl2, _ = asserts.classes(tr, case)
    return out, {"nontrivial": nontrivial, "classes": sorted(cl | cl2), "truncated": tr.truncated,
                 "excluded_known": case.get("meta", {}).get("excluded_known", 0), "extra": {"synthesised_commands": nsynth},
                 "sample": {"regions": case["regions"], "config": case["config"],
                            "prog": [i[1] if i[0] == "g" else i for i in case["prog"]]}}


def selftest():
    printer.selftest()
    gread.selftest()
