"""C06 - Deferred G-codes and enter/exit scripts: exactly once per exclusion episode.

Through the plugin object: settings -> _handleSettingsUpdated -> _splitGcodeScript, hooks as
OctoPrint calls them.  Oracle: an ordered-map reference model of the deferred codes driven by
the geometric episode oracle."""
import collections

from hypothesis import strategies as st

from vlib import env, core, gen, asserts, printer, gread, geom, plugin_harness  # noqa: F401

ID = "C06"
BUDGET = {"quick": 1200, "thorough": 12000}
RULE = ("Hypothesis draws a mode assignment (exclude/first/last/merge/unconfigured) over 9 codes, enter/exit scripts of 0-3 "
        "canonical lines wrapped in blank lines, comments, leading/trailing blanks and LF/CRLF endings (split by the plugin), "
        "0-2 regions and a program of 8-45 ops that sprinkles instances of those codes (several parameter shapes) inside and "
        "outside episodes, with several episodes per print and every ending: move out, disable @-command, afterPrintDone hook, "
        "a new PRINT_STARTED (optionally after FAILED/CANCELLED/DONE). Non-trivial = an episode in which at least two deferred "
        "codes of at least two different modes were withheld and which then ended. Distinct by SHA-1 of the concrete case.")
ASSUMPTIONS = [
    "programs are in mm / absolute positioning; moves are linear; regions have off-grid borders (the episode oracle is C01's)",
    "merge-mode instances carry letter/number words only (valueless flags in a merged command: see KF-C06-MERGE-FLAG if listed)",
    "script lines are distinct marker commands so that their emissions can be counted",
    "what follows the exit script at an episode end is judged by the C03 position relation (the printer stands where the program says after the end); script lines are marker commands that move nothing",
]

POOL = ["M204", "M205", "M73", "M117", "G4", "M106", "M900", "M104", "M220", "T"]     # ("T": every tool change, as OctoPrint reports it)
NOMERGE = ("M117", "T")
ENTER_LINES = ["M118 E1 enter-a", "M300 S440 P50", "@enterExcludedRegion", "M117 Excluding", "M118 path C:\\"]
EXIT_LINES = ["M118 E1 exit-a", "M300 S880 P20", "@exitExcludedRegion", "M117 Printing again"]


def fmtnum(v):
    return gen.fmt(v, 4)


@st.composite
def instance(draw, code):
    if code == "T":
        return "T%d" % draw(st.integers(0, 3))
    n = draw(st.sampled_from([0, 1, 5, 25, 50, 100, 500, 1500, 0.02, 0.5, 7.25, 1200.5]))
    m = draw(st.sampled_from([0, 2, 8, 40, 800, 0.08, 3.5]))
    shape = draw(st.integers(0, 2))
    if code in ("M205", "M73", "M106") and draw(st.integers(0, 5)) == 0:
        # a valueless flag word among the parameters
        return {"M205": "M205 X Y%s" % fmtnum(m), "M73": "M73 P%s R" % fmtnum(n), "M106": "M106 I S%s" % fmtnum(n)}[code]
    if code == "M204":
        return ["M204 S%s" % fmtnum(n), "M204 P%s T%s" % (fmtnum(n), fmtnum(m)), "M204 T%s" % fmtnum(m)][shape]
    if code == "M205":
        return ["M205 X%s Y%s" % (fmtnum(n), fmtnum(m)), "M205 J%s" % fmtnum(m), "M205 Z%s E%s X%s" % (fmtnum(m), fmtnum(n), fmtnum(m))][shape]
    if code == "M73":
        return ["M73 P%s" % fmtnum(n), "M73 P%s R%s" % (fmtnum(n), fmtnum(m)), "M73 R%s" % fmtnum(m)][shape]
    if code == "M117":
        return ["M117 Layer %s" % fmtnum(n), "M117 X%s of Y%s" % (fmtnum(n), fmtnum(m)), "M117 printing"][shape]
    if code == "G4":
        return ["G4 P%s" % fmtnum(n), "G4 S%s" % fmtnum(m), "G4"][shape]
    if code == "M106":
        return ["M106 S%s" % fmtnum(n), "M106 P1 S%s" % fmtnum(m), "M106"][shape]
    if code == "M900":
        return "M900 K%s" % fmtnum(m)
    if code == "M104":
        return ["M104 S%s" % fmtnum(n), "M104 T0 S%s" % fmtnum(n), "M104 S%s" % fmtnum(m)][shape]
    return "M220 S%s" % fmtnum(n)


def wrap_script(draw, lines):
    """Script text as a user would type it into the settings box."""
    if not lines:
        return draw(st.sampled_from([None, "", "\n", "; nothing\n"]))
    eol = draw(st.sampled_from(["\n", "\n", "\r\n", "\r\n", "\r"]))
    text = ""
    for ln in lines:
        if draw(st.integers(0, 3)) == 0:
            text += draw(st.sampled_from(["", "   ", "; comment only"])) + eol
        lead = draw(st.sampled_from(["", "", " ", "  "]))
        trail = draw(st.sampled_from(["", "", " ", " ; why", "; c"]))
        if ln.startswith("@") or ln.startswith("M117") or ln.startswith("M118"):
            trail = draw(st.sampled_from(["", "", " "])) if not ln.startswith("@") else ""
        text += lead + ln + trail + eol
    if draw(st.booleans()):
        text = text[:-len(eol)]
    return text


@st.composite
def cases(draw):  # pylint: disable=too-many-locals,too-many-branches,too-many-statements
    codes = draw(st.lists(st.sampled_from(POOL), unique=True, min_size=2, max_size=7))
    ext = {}
    for c in codes:
        modes = ["exclude", "first", "last", "merge"] if c not in NOMERGE else ["exclude", "first", "last"]
        ext[c] = draw(st.sampled_from(modes))
    enter = draw(st.lists(st.sampled_from(ENTER_LINES), unique=True, max_size=3))
    exit_ = draw(st.lists(st.sampled_from(EXIT_LINES), unique=True, max_size=3))
    cfg = {"ext": ext, "enter_script": wrap_script(draw, enter), "exit_script": wrap_script(draw, exit_),
           "g90e": draw(st.booleans()), "debug": draw(st.integers(0, 4)) == 0}
    nreg = draw(st.integers(1, 3))
    regions = [draw(gen.region(k, False)) for k in range(nreg)]
    prog = [["g", "G28"], ["g", "G92 E0"], ["g", "G1 X1 Y1 Z0.2 F3000"]]
    e = 0.0
    nops = draw(st.integers(8, 45))
    rnd = gen.Renderer({}, regions, gen.profile(), 0.508, False, False)
    inside = False
    for _ in range(nops):
        k = draw(st.sampled_from(["code"] * 6 + ["in"] * 2 + ["out"] * 3 + ["visit"] * 5 + ["other", "disable", "hook", "newprint", "z"]))
        if k == "visit":
            # a deliberate episode: move in, several configured codes, then one of the ways to end it
            tx, ty = rnd.target("in", draw(st.integers(0, 7)), draw(st.integers(0, 120)), draw(st.integers(0, 120)))
            wipe = ""
            if draw(st.integers(0, 3)) == 0:
                # Slic3r-style entering move that retracts while moving
                e -= 0.508
                wipe = " E%s" % gen.fmt(e)
            prog.append(["g", "G1 X%s Y%s%s" % (gen.fmt(tx), gen.fmt(ty), wipe)])
            if wipe and draw(st.booleans()):
                e += 0.508
                prog.append(["g", "G1 E%s" % gen.fmt(e)])
            for _k in range(draw(st.integers(2, 6))):
                c = draw(st.sampled_from(codes + codes + POOL))
                prog.append(["g", draw(instance(c))])
            if len(codes) >= 2 and draw(st.integers(0, 4)) == 0:
                # two different codes with byte-identical parameter text back to back, then one of them again
                ca, cb = draw(st.permutations(codes))[:2]
                if "M117" not in (ca, cb) and "T" not in (ca, cb):
                    v = draw(st.sampled_from([500, 1000, 8]))
                    prog += [["g", "%s S%d" % (ca, v)], ["g", "%s S%d" % (cb, v)], ["g", "%s T%d" % (cb, v + 20)]]
            if draw(st.integers(0, 40)) == 0:
                # a very long stay: over a thousand suppressed commands with configured codes among them (densely around each
                # 500th), and dozens of distinct instances per code
                nlong = draw(st.sampled_from([520, 1040, 1600]))
                for q in range(nlong):
                    if q % 11 == 3 or (q % 500) > 480:
                        c = codes[(q // 3) % len(codes)]
                        prog.append(["g", ("%s L%d" % (c, q)) if c == "M117" else (("T%d" % (q % 5)) if c == "T" else ("%s S%d" % (c, q)))])
                    else:
                        prog.append(["g", "G1 X%s Y%s" % (gen.fmt(tx + 0.001 * (q % 40)), gen.fmt(ty + 0.001 * (q // 40)))])
            end = draw(st.sampled_from(["out", "out", "disable", "hook", "newprint", "stay", "delete_then_out"]))
            if end == "delete_then_out" and len(rnd.regions) > 1:
                # the user deletes the region the tool is in; the episode goes on until the next move out
                inside = [r for r in rnd.regions if geom.in_region(r, tx, ty)]
                if inside:
                    rnd.regions.remove(inside[0])
                    prog.append(["unreg", inside[0]["id"]])
                    prog.append(["g", draw(instance(draw(st.sampled_from(codes + POOL))))])
                end = "out"
            if end == "out":
                tx, ty = rnd.target("grid", 0, draw(st.integers(0, 4)), draw(st.integers(0, 4)))
                tx, ty = abs(tx) % 2.0, abs(ty) % 2.0          # next to the home corner, which no region covers
                prog.append(["g", "G1 X%s Y%s" % (gen.fmt(tx), gen.fmt(ty))])
                if draw(st.integers(0, 3)) == 0:
                    # between two episodes the user re-assigns the modes of the configured codes (same codes, other modes)
                    ext = dict(ext)
                    for c in codes:
                        ext[c] = draw(st.sampled_from(["exclude", "first", "last", "merge"] if c not in NOMERGE else ["exclude", "first", "last"]))
                    if draw(st.booleans()):
                        # ... or deletes a row / configures a code that has been passing through so far
                        gone = draw(st.sampled_from(codes))
                        ext.pop(gone, None)
                        newc = draw(st.sampled_from(POOL))
                        ext.setdefault(newc, draw(st.sampled_from(["first", "last", "exclude"])))
                    prog.append(["set_ext", dict(ext)])
            elif end == "disable":
                prog.append(["at", "ExcludeRegion", "off"])
                prog.append(["at", "ExcludeRegion", "on"])
            elif end == "hook":
                prog.append(["hook", "gcode", "afterPrintDone"])
            elif end == "newprint":
                prog.append(["event", "PRINT_STARTED"])
                prog += [["g", "G28"], ["g", "G92 E0"], ["g", "G1 X1 Y1 Z0.2 F3000"]]
                e = 0.0
        elif k == "code":
            c = draw(st.sampled_from(POOL))
            prog.append(["g", draw(instance(c))])
        elif k == "other":
            prog.append(["g", draw(st.sampled_from(["M400", "M105", "M114", "T0"]))])
        elif k in ("in", "out"):
            tx, ty = rnd.target("in" if k == "in" else draw(st.sampled_from(["edge_out", "grid"])),
                                draw(st.integers(0, 7)), draw(st.integers(0, 120)), draw(st.integers(0, 120)))
            w = " X%s Y%s" % (gen.fmt(tx), gen.fmt(ty))
            if draw(st.booleans()):
                e += 0.254
                w += " E%s" % gen.fmt(e)
            prog.append(["g", "G1" + w])
            inside = (k == "in")
        elif k == "z":
            prog.append(["g", "G1 Z%s" % draw(st.sampled_from(["0.4", "0.6", "1"]))])
        elif k == "disable":
            prog.append(["at", "ExcludeRegion", draw(st.sampled_from(["off", "disable now"]))])
            if draw(st.booleans()):
                prog.append(["g", draw(instance(draw(st.sampled_from(POOL))))])
            prog.append(["at", "ExcludeRegion", "on"])
        elif k == "hook":
            prog.append(["hook", draw(st.sampled_from(["gcode", "gcode", "gcode", "other"])),
                         draw(st.sampled_from(["afterPrintDone", "afterPrintDone", "afterPrintCancelled", "beforePrintStarted"]))])
        elif k == "newprint":
            pre = draw(st.sampled_from([None, None, "PRINT_FAILED", "PRINT_CANCELLED", "PRINT_DONE"]))
            if pre:
                prog.append(["event", pre])
            prog.append(["event", "PRINT_STARTED"])
            prog += [["g", "G28"], ["g", "G92 E0"], ["g", "G1 X1 Y1 Z0.2 F3000"]]
            e = 0.0
            inside = False
    del inside
    return {"config": cfg, "regions": regions, "prog": prog,
            "meta": {"enter": enter, "exit": exit_}}


def strategy(tier):
    return cases()


def merged_equal(text, code, want):
    rd = gread.read(text)
    if rd is None or rd.code != code or rd.sub is not None:
        return False
    letters = [l for l, _ in rd.words]
    if len(set(letters)) != len(letters):
        return False
    got = dict(rd.words)
    if set(got) != set(want):
        return False
    for l, v in want.items():
        if (v is None) != (got[l] is None):
            return False
        if v is not None and abs(got[l] - v) > 1e-9 * max(1.0, abs(v)):
            return False
    return True


def run_case(case, strict=False):  # pylint: disable=unused-argument
    tr = core.run(case, filter_factory=plugin_harness.PluginFilter)
    cfg = case["config"]
    out, cl, nontrivial = check_trace(tr, cfg.get("ext") or {}, case["meta"]["enter"], case["meta"]["exit"])
    # whatever follows the exit script is the re-synchronisation of this very episode end (nothing of an earlier one):
    # the printer stands where the program says (the C03 relation)
    out += [dict(f, tag="c06_after_exit_script") for f in asserts.c03(tr) if f["tag"] == "c03_position"]
    for k, v in (cfg.get("ext") or {}).items():
        cl.add("mode_" + v)
    if cfg.get("enter_script"):
        cl.add("enter_script")
    if cfg.get("exit_script"):
        cl.add("exit_script")
    return out, {"nontrivial": nontrivial, "classes": sorted(cl), "truncated": tr.truncated,
                 "sample": {"config": cfg, "regions": case["regions"],
                            "prog": [i[1] if i[0] == "g" else i for i in case["prog"]]}}


def code_of(rd):
    """The code a command is configured under: its G/M code, or "T" for every tool change."""
    if rd is None:
        return None
    return "T" if rd.code[0] == "T" else rd.code


def check_trace(tr, ext, enter, exit_):  # pylint: disable=too-many-branches,too-many-locals,too-many-statements
    """The C06 reference model applied to a trace (also used by C15)."""
    out = asserts.exceptions(tr)
    F = asserts.F
    pending = collections.OrderedDict()
    modes_seen = set()
    cl = set()
    nontrivial = False
    enter_emitted = exit_emitted = 0
    for it in tr.items:
        if it.kind == "set_ext":
            ext = dict(it.item[1])          # the modes in force from here on
            cl.add("modes_reassigned_mid_print")
            continue
        if it.kind == "event":
            if it.item[1] == "PRINT_STARTED":
                if pending:
                    cl.add("new_print_drops_pending")
                pending.clear()
                modes_seen = set()
            continue
        if not it.active_before:
            continue
        rd = it.u_step.read if (it.kind == "g" and it.u_step is not None) else None
        code = code_of(rd)
        configured = code in ext and code not in ("G0", "G1", "G2", "G3", "G10", "G11", "G20", "G21", "G28", "G90", "G91", "G92", "M206")
        # count script emissions anywhere
        for ln in enter:
            enter_emitted += it.out.count(ln) if not (it.kind == "g" and it.cmd == ln) else 0
        if it.kind == "g" and configured:
            inside = it.open_before and it.enabled_before
            if inside:
                if it.out:
                    out.append(F("c06_not_withheld", it, "configured code processed during an episode was not withheld: %r" % (it.out,)))
                mode = ext[code]
                modes_seen.add(mode)
                if mode == "first":
                    pending.setdefault(code, it.cmd)
                elif mode == "last":
                    pending.pop(code, None)
                    pending[code] = it.cmd
                elif mode == "merge":
                    d = pending.pop(code, None) or collections.OrderedDict()
                    pending[code] = d
                    for l, v in rd.words:
                        d[l] = v
            else:
                if it.out != [it.cmd]:
                    out.append(F("c06_altered_outside", it, "configured code outside an episode was not passed unchanged: %r" % (it.out,)))
            continue
        if it.opening:
            if it.out[:len(enter)] != enter:
                out.append(F("c06_enter_script", it, "episode opens with %r, expected the enter script %r first" % (it.out, enter)))
            elif it.kind == "g" and it.u_step is not None and it.u_step.dfil >= 0:
                # after the enter script nothing may follow that belongs to a script or to a deferred code, and - unless the
                # entering move itself retracts - nothing that touches the extruder (a retraction out of nowhere)
                for cmd in it.out[len(enter):]:
                    r2 = gread.read(cmd) if isinstance(cmd, str) else None
                    if cmd in enter or cmd in exit_ or (r2 is not None and (code_of(r2) in ext or r2.has("E") or r2.code in ("G10", "G11"))):
                        out.append(F("c06_enter_script_extra", it, "episode opens with %r: %r follows the enter script %r although the entering move does not retract" % (it.out, cmd, enter)))
                        break
            if it.kind == "g" and it.u_step is not None and it.u_step.dfil < 0:
                cl.add("entering_move_retracts")
            cl.add("episode")
        if it.closing:
            want = []
            for c, v in pending.items():
                want.append((c, v))
            n = len(want)
            head = it.out[:n]
            ok = len(head) == n
            if ok:
                for (c, v), got in zip(want, head):
                    if isinstance(v, str):
                        ok = ok and (got == v)
                    else:
                        ok = ok and merged_equal(got, c, v)
            if not ok:
                out.append(F("c06_flush", it, "episode ends with %r, expected the deferred commands %r first (in this order)" % (it.out, [(c, v if isinstance(v, str) else dict(v)) for c, v in want])))
            if it.out[n:n + len(exit_)] != exit_:
                out.append(F("c06_exit_script", it, "after the deferred commands the output continues %r, expected the exit script %r" % (it.out[n:], exit_)))
            else:
                exit_emitted += 1
            rest = it.out[n + len(exit_):]
            for cmd in rest:
                r2 = gread.read(cmd)
                if (r2 is not None and code_of(r2) in ext) or cmd in exit_ or (cmd in enter and cmd != it.cmd):
                    out.append(F("c06_leak", it, "%r appears after the deferred/exit-script prefix of the episode end: %r" % (cmd, it.out)))
            if len(pending) >= 2 and len(modes_seen - {"exclude"}) >= 2:
                nontrivial = True
            if len(pending) >= 1:
                cl.add("flush_" + {"g": "by_move", "at": "by_disable", "hook": "by_print_done"}[it.kind])
            cl.add("end_" + {"g": "move_out", "at": "disable", "hook": "print_done"}[it.kind])
            pending.clear()
            modes_seen = set()
        elif not it.opening and it.kind in ("g", "at", "hook"):
            # no deferred command or script line may appear anywhere else
            for cmd in it.out:
                if cmd == it.cmd:
                    continue
                r2 = gread.read(cmd) if isinstance(cmd, str) else None
                if (r2 is not None and code_of(r2) in ext) or cmd in exit_ or cmd in enter:
                    out.append(F("c06_leak", it, "%r emitted outside an episode boundary: %r" % (cmd, it.out)))
        if it.kind == "hook" and not it.closing and it.raw is not None:
            out.append(F("c06_hook_contributes", it, "script hook contributed %r although no episode was open / other script" % (it.raw,)))
    opened = sum(1 for it in tr.items if it.opening)
    if enter and not any(f["tag"] == "c06_enter_script" for f in out):
        total_enter = sum(sum(1 for i in range(len(it.out)) if it.out[i:i + len(enter)] == enter) for it in tr.items)
        if total_enter != opened:
            out.append({"tag": "c06_enter_count", "at": None, "msg": "enter script emitted %d times for %d episodes" % (total_enter, opened)})
    return out, cl, nontrivial


def selftest():
    printer.selftest()
    gread.selftest()
    plugin_harness.selftest()
    assert merged_equal("M205 X8.0 Y0.5", "M205", {"X": 8.0, "Y": 0.5}) and not merged_equal("M205 X8 X8", "M205", {"X": 8.0})
