"""C13 - Region registry integrity and client notification (stateful, model-based)."""
from hypothesis import strategies as st
from hypothesis.stateful import RuleBasedStateMachine, rule, initialize

from vlib import env, core, geom, plugin_harness, stateful  # noqa: F401
from vlib.plugin_harness import Harness

ID = "C13"
BUDGET = {"quick": 1500, "thorough": 6000}
STEPS = {"quick": 30, "thorough": 60}
RULE = ("RuleBasedStateMachine over the plugin's API and events: add (explicit fresh id, no id, duplicate id), update (known id "
        "with grown / shrunk / identical / type-changed geometry, unknown id, missing id), delete (known / unknown id), requests "
        "with wrong or missing type, unknown command, garbage or infinite numerics, every request also as anonymous user; events "
        "file-selected, print started / done / failed / cancelled / error with the clear-after-print setting on or off, settings "
        "updates; GET after every step. Reference model: ordered list of serialised regions. One evaluation = one history of up "
        "to 30 (60) steps. Non-trivial = at least 3 successful mutations and at least 1 rejected request. Distinct by SHA-1 of "
        "the op list.")
ASSUMPTIONS = [
    "ids assigned by the plugin (uuid4) are treated as opaque fresh strings",
    "a request that is accepted without changing the list may notify at most once (only actual changes require exactly one notification)",
    "flask-login's current_user is replaced by a stub with a callable is_anonymous() (environment adaptation, see DESIGN 3.4)",
]

END_EVENTS = ("PRINT_DONE", "PRINT_FAILED", "PRINT_CANCELLING", "PRINT_CANCELLED", "ERROR")


def serial(reg):
    """Expected serialisation of an accepted region request."""
    if reg["type"] == "RectangularRegion":
        x1, x2 = sorted((float(reg.get("x1", 0)), float(reg.get("x2", 0))))
        y1, y2 = sorted((float(reg.get("y1", 0)), float(reg.get("y2", 0))))
        return {"type": "RectangularRegion", "x1": x1, "y1": y1, "x2": x2, "y2": y2, "id": reg.get("id")}
    return {"type": "CircularRegion", "cx": float(reg.get("cx", 0)), "cy": float(reg.get("cy", 0)), "r": float(reg.get("r", 0)),
            "id": reg.get("id")}


class Stepper(object):
    def __init__(self, case):
        self.h = Harness(case.get("config", {}))
        self.model = []
        self.mutations = self.rejected = 0
        self.classes = set()
        self.seen_msgs = len(self.h.pm.messages)

    def info(self):
        return {"nontrivial": self.mutations >= 3 and self.rejected >= 1, "classes": sorted(self.classes)}

    def step(self, op):  # noqa: C901  pylint: disable=too-many-branches,too-many-statements
        out = []
        h = self.h

        def bad(tag, msg):
            out.append({"tag": tag, "msg": "op %r: %s" % (op, msg)})

        before = h.regions()
        nmsg = len(h.pm.messages)
        k = op[0]
        resp = None
        raised = None
        anonymous = False
        if k == "api":
            _, command, data, anonymous = op
            try:
                resp = h.api(command, data, anonymous=anonymous)
            except (ValueError, TypeError) as exc:
                raised = type(exc).__name__
        elif k == "burst":
            # n add requests, three quarters of them deleted again at once: per request exactly one notification carrying the list
            _, n, keep, base = op
            for i in range(n):
                rid = "b%d_%d" % (base, i)
                data = {"type": "CircularRegion", "cx": 5.0 + i % 50, "cy": 7.0 + i // 50, "r": 1.5, "id": rid}
                for command, body in ([("addExcludeRegion", data)] + ([("deleteExcludeRegion", {"id": rid})] if i % 4 != keep else [])):
                    n0 = len(h.pm.messages)
                    resp = h.api(command, body)
                    sent = h.pm.messages[n0:]
                    if command == "deleteExcludeRegion" and resp is not None:
                        # refused (a print is active and shrinking is not allowed): nothing changes, nobody is told
                        if sent or h.regions() != self.model:
                            bad("c13_rejected_changes", "refused delete %s in a burst changed the list or notified clients" % rid)
                            break
                        continue
                    if command == "addExcludeRegion":
                        self.model.append(serial(data))
                    else:
                        self.model = [r for r in self.model if r["id"] != rid]
                    if resp is not None or len(sent) != 1 or sent[0][1].get("excluded_regions") != self.model:
                        bad("c13_notification_count", "request %d of a burst (%s %s): response %r, %d notifications, payload equals the list: %s" % (
                            i, command, rid, resp, len(sent), bool(sent) and sent[0][1].get("excluded_regions") == self.model))
                        break
                if out:
                    break
            self.mutations += 3
            self.classes.add("burst_of_%d" % n)
            before = h.regions()            # (the burst's own requests were judged one by one above)
            nmsg = len(h.pm.messages)
        elif k == "event":
            h.event(op[1], dict(op[2]) if len(op) > 2 and op[2] else None)
        elif k == "setting":
            h.update_settings(**{op[1]: op[2]})
        after = h.regions()
        new = h.pm.messages[nmsg:]
        changed = after != before
        ids = [r["id"] for r in after]
        if len(set(ids)) != len(ids):
            bad("c13_duplicate_id", "region ids are not unique: %r" % (ids,))
        for ident, payload in new:
            if ident != "excluderegion" or payload.get("event") != "ExcludedRegionsChanged":
                bad("c13_notification_shape", "unexpected plugin message %r" % ((ident, payload),))
            elif payload.get("excluded_regions") != after:
                bad("c13_notification_payload", "notification carries %r, the list is %r" % (payload.get("excluded_regions"), after))
        if changed and len(new) != 1:
            bad("c13_notification_count", "the region list changed but %d notifications were sent" % len(new))
        if not changed and len(new) > 1:
            bad("c13_notification_count", "%d notifications for a step that did not change the list" % len(new))
        if k == "api":
            rejected = resp is not None or raised is not None
            if anonymous:
                self.classes.add("anonymous_request")
                # (how the refusal is signalled - status tuple, exception - is not part of the statement)
                if changed or new:
                    bad("c13_anonymous_changes", "anonymous request changed the list or notified clients")
            elif rejected:
                self.rejected += 1
                self.classes.add("rejected_" + (raised or str(resp[1] if isinstance(resp, tuple) else resp)))
                if changed:
                    bad("c13_rejected_changes", "rejected request (%r) changed the list from %r to %r" % (resp or raised, before, after))
                if new:
                    bad("c13_rejected_notifies", "rejected request (%r) notified clients" % (resp or raised,))
            else:
                command, data = op[1], op[2]
                if command == "addExcludeRegion":
                    want = serial(data)
                    if want["id"] is None:
                        self.classes.add("add_without_id")
                        got_id = after[-1]["id"] if after else None
                        if not (isinstance(got_id, str) and got_id and got_id not in [r["id"] for r in before]):
                            bad("c13_assigned_id", "region added without id got id %r" % (got_id,))
                        want["id"] = got_id
                    self.model.append(want)
                    self.mutations += 1
                elif command == "updateExcludeRegion":
                    want = serial(data)
                    idx = [i for i, r in enumerate(self.model) if r["id"] == want["id"]]
                    if not idx:
                        bad("c13_update_unknown_accepted", "update of unknown id %r accepted" % (want["id"],))
                    else:
                        self.model[idx[0]] = want
                        self.mutations += 1
                        self.classes.add("update_accepted")
                elif command == "deleteExcludeRegion":
                    n = len(self.model)
                    self.model = [r for r in self.model if r["id"] != data.get("id")]
                    if len(self.model) != n:
                        self.mutations += 1
                        self.classes.add("delete_accepted")
                    else:
                        self.classes.add("delete_unknown_noop")
                else:
                    bad("c13_unknown_command_accepted", "unknown command accepted")
        elif k == "event":
            if after not in (before, []):
                bad("c13_event_changes", "event changed the list to %r" % (after,))
            if op[1] == "FILE_SELECTED" and after != []:
                bad("c13_file_selected", "regions survive file selection: %r" % (after,))
            if changed:
                self.classes.add("cleared_by_" + op[1])
            self.model = list(after) if after == [] else self.model
        if after != self.model:
            bad("c13_model", "region list is %r, the reference model says %r" % (after, self.model))
        got = h.api_get()
        if got != {"excluded_regions": after}:
            bad("c13_get", "GET returns %r, the list is %r" % (got, after))
        return out


def run_case(case, strict=False):  # pylint: disable=unused-argument
    import props.c13 as mod
    return stateful.replay(mod, case)


num = st.one_of(st.integers(-5, 60), st.sampled_from([0.5, 10.25, 20.75, 1e9, -3.5, 10.1234567, 33.33333333333333, 0.0004, 7.0000001]))
ids = st.sampled_from(["a", "b", "c", "d", "zz", "a", "b", "", 0, "cube <20mm> & 'lid'", "a&amp;b", "7", 7])   # (falsy ids, markup, digits are ids too)
PAYLOADS = [
    {"name": "a.gcode", "path": "a.gcode", "origin": "local", "size": 1234},
    {"name": "a.gcode", "path": "a.gcode", "origin": "local", "size": 1234},
    {"name": "b.gcode", "path": "sub/b.gcode", "origin": "local"},
    {"name": "a.gco", "path": "a.gco", "origin": "sdcard"},
]


@st.composite
def region_data(draw, with_id):
    if draw(st.booleans()):
        d = {"type": "RectangularRegion", "x1": draw(num), "y1": draw(num), "x2": draw(num), "y2": draw(num)}
    else:
        d = {"type": "CircularRegion", "cx": draw(num), "cy": draw(num), "r": draw(st.one_of(st.integers(0, 30), st.just(2.5)))}
    if with_id:
        d["id"] = draw(ids)
    return d


def machine(tier, col):  # pylint: disable=unused-argument
    import props.c13 as mod

    class Registry(stateful.MachineMixin, RuleBasedStateMachine):
        MOD = mod
        COL = col

        @initialize(clear=st.booleans(), shrink=st.booleans())
        def setup(self, clear, shrink):
            self._init_case({"config": {"clear_after_print": clear, "may_shrink": shrink}})

        @rule(data=region_data(True), anon=st.integers(0, 7))
        def add_with_id(self, data, anon):
            self.do(["api", "addExcludeRegion", data, anon == 0])

        @rule(data=region_data(False), anon=st.integers(0, 7))
        def add_without_id(self, data, anon):
            self.do(["api", "addExcludeRegion", data, anon == 0])

        @rule(data=region_data(True), anon=st.integers(0, 7))
        def update_any(self, data, anon):
            self.do(["api", "updateExcludeRegion", data, anon == 0])

        @rule(pick=st.integers(0, 9), how=st.sampled_from(["same", "grow", "shrink", "type"]), anon=st.integers(0, 7))
        def update_existing(self, pick, how, anon):
            cur = self.stepper.h.regions()
            if not cur:
                return
            old = dict(cur[pick % len(cur)])
            d = {"same": 0, "grow": 2, "shrink": -1}.get(how, 0)
            if old["type"] == "RectangularRegion":
                new = dict(old, x1=old["x1"] - d, y1=old["y1"] - d, x2=old["x2"] + d, y2=old["y2"] + d)
                if how == "type":
                    new = {"type": "CircularRegion", "id": old["id"], "cx": (old["x1"] + old["x2"]) / 2, "cy": (old["y1"] + old["y2"]) / 2,
                           "r": abs(old["x2"] - old["x1"]) + abs(old["y2"] - old["y1"]) + 1}
            else:
                new = dict(old, r=max(0, old["r"] + d))
                if how == "type":
                    new = {"type": "RectangularRegion", "id": old["id"], "x1": old["cx"] - old["r"] - 1, "y1": old["cy"] - old["r"] - 1,
                           "x2": old["cx"] + old["r"] + 1, "y2": old["cy"] + old["r"] + 1}
            if any(isinstance(v, float) and v != v for v in new.values()):
                return          # NaN (inf - inf from an infinite region): NaN != NaN would make every comparison meaningless
            self.do(["api", "updateExcludeRegion", new, anon == 0])

        @rule(pick=st.integers(0, 9), anon=st.integers(0, 7))
        def delete_existing(self, pick, anon):
            cur = self.stepper.h.regions()
            if cur:
                self.do(["api", "deleteExcludeRegion", {"id": cur[pick % len(cur)]["id"]}, anon == 0])

        @rule(pick=st.integers(0, 99), what=st.sampled_from(["update", "update", "delete", "add"]), data=region_data(False), anon=st.integers(0, 7))
        def former_id(self, pick, what, data, anon):
            """A client that kept the id of a region it once drew (it may be long gone: deleted, or cleared with a new file)."""
            seen = [op[2]["id"] for op in self.case["ops"] if op[0] == "api" and isinstance(op[2], dict) and "id" in op[2]]
            if not seen:
                return
            data = dict(data, id=seen[pick % len(seen)])
            if what == "delete":
                data = {"id": data["id"]}
            self.do(["api", {"update": "updateExcludeRegion", "delete": "deleteExcludeRegion", "add": "addExcludeRegion"}[what], data, anon == 0])

        @rule(i=ids, anon=st.integers(0, 7))
        def delete_any(self, i, anon):
            self.do(["api", "deleteExcludeRegion", {"id": i}, anon == 0])

        @rule(kind=st.sampled_from(["notype", "badtype", "badcmd", "noid", "garbage", "inf", "none_id"]), data=region_data(True))
        def malformed(self, kind, data):
            cmd = "addExcludeRegion"
            if kind == "notype":
                data.pop("type")
            elif kind == "badtype":
                data["type"] = "TriangularRegion"
            elif kind == "badcmd":
                cmd = "renameExcludeRegion"
            elif kind == "noid":
                cmd = "updateExcludeRegion"
                data.pop("id")
            elif kind == "garbage":
                data["x1" if data["type"] == "RectangularRegion" else "r"] = "abc"
            elif kind == "inf":
                data["x2" if data["type"] == "RectangularRegion" else "r"] = "inf"
            elif kind == "none_id":
                cmd = "deleteExcludeRegion"
                data = {"id": None}
            self.do(["api", cmd, data, False])

        @rule(name=st.sampled_from(("PRINT_STARTED", "PRINT_STARTED", "FILE_SELECTED", "PRINT_PAUSED", "CONNECTED") + END_EVENTS))
        def event(self, name):
            self.do(["event", name])

        @rule(name=st.sampled_from(("PRINT_STARTED", "FILE_SELECTED", "FILE_SELECTED", "FILE_SELECTED") + END_EVENTS), payload=st.sampled_from(PAYLOADS))
        def event_with_payload(self, name, payload):
            self.do(["event", name, payload])

        @rule(n=st.sampled_from([40, 130, 300]), keep=st.integers(0, 3), go=st.integers(0, 24))
        def burst(self, n, keep, go):
            """A long session (rare): many regions drawn and removed again in quick succession; every change is notified."""
            if go == 0:
                self.do(["burst", n, keep, len(self.case["ops"])])

        @rule(key=st.sampled_from(["clearRegionsAfterPrintFinishes", "mayShrinkRegionsWhilePrinting"]), val=st.booleans())
        def setting(self, key, val):
            self.do(["setting", key, val])

    return Registry


def selftest():
    plugin_harness.selftest()
