"""C18 - Parser is lossless and its normalisation is stable."""
from hypothesis import strategies as st

from vlib import env  # noqa: F401
from octoprint_excluderegion.GcodeParser import GcodeParser

ID = "C18"
BUDGET = {"quick": 6000, "thorough": 60000}
RULE = ("Hypothesis draws (a) free text over the G-code alphabet (letters incl. G/M/T/N, digits, + - . space * ; backslash, CR, LF, "
        "tab and a few other characters incl. non-ASCII) and (b) structured files: lines built from optional leading blanks, "
        "optional N<number>, a code (G/M/T, optional sub-code, odd spacing, lower case), parameter text, optional *<checksum> "
        "(right or wrong), trailing blanks, optional comment, and LF / CRLF / CR / missing terminators. One parser instance is used "
        "through parseLines, as the plugin does. Non-trivial = text with at least 2 lines of which at least one carries a checksum "
        "or a comment. Distinct by SHA-1 of the text.")
ASSUMPTIONS = [
    "losslessness is judged on the public attributes fullText / length of one shared parser instance",
    "'validates against its own checksum' = str(parser) with a line number, re-parsed by a fresh parser, passes validate()",
]

ALPHABET = "GMTNXYZEFgmtnxyz0123456789+-. *;\\\r\n\t:@#(=é\x0b\x0c\x1c\x85\xa0\u2028\x00\ufeff"
free_text = st.text(alphabet=ALPHABET, max_size=60)

lead = st.sampled_from(["", "", "", " ", "  ", "   "])
lineno = st.sampled_from(["", "", "N1 ", "N25", "n7 ", "N007 "])
code = st.sampled_from(["G1", "G0", "g1", "G 1", "G01", "M117", "M204", "T0", "T 1", "G38.2", "G92.1", "G38.0", "M428.0", "G1.0", "G0.00", "M 600", "G28", "G10", "m82", "M73"])
params = st.one_of(
    st.sampled_from(["", " X1 Y2", "X1Y2", " X-1.5 E.5 F1200", " S255", " Hello world", " P1 \; not a comment", " X1  Y2 ", " .5", " 5", " E1e-5",
                     " X", " ;", " \\\\", " X+.5Y-5.", "  text with * star", "\t", " \t", "\x0c", "\xa0", " X1\t", "\t\t", " \x0b "]),
    st.text(alphabet="XYZEFS0123456789.-+ \\", max_size=12))
checksum = st.sampled_from(["", "", "", "*0", "*71", "*255", " *12", "*", "* 7", "*  12", "* ", "*007", "**5"])
trail = st.sampled_from(["", "", " ", "  "])
comment = st.sampled_from(["", "", "; comment", ";", " ; c * 3", ";N5 G1"])
eol = st.sampled_from(["\n", "\n", "\r\n", "\r", ""])
other_line = st.sampled_from(["", " ", "; only a comment", "@ExcludeRegion off", "garbage here", "N5", "*5", "M", "G", "\\"])

structured_line = st.one_of(
    st.tuples(lead, lineno, code, params, checksum, trail, comment, eol).map("".join),
    st.tuples(lead, other_line, trail, comment, eol).map("".join))
@st.composite
def twin_lines(draw):
    """Two consecutive lines with the same code and parameters that differ only in sub-code, indentation or line number."""
    c = draw(st.sampled_from(["G38", "G1", "M117", "G92", "M204", "T0"]))
    prm = draw(st.sampled_from([" Z-5", " X1 Y2", "", " S500", " Hello"]))
    def one():
        sub = draw(st.sampled_from(["", ".2", ".3", ".0"])) if c[0] in "GM" else ""
        return draw(lead) + draw(st.sampled_from(["", "", "N4 ", "N5 "])) + c + sub + prm + draw(checksum) + draw(eol)
    return one() + one()


structured = st.lists(st.one_of(structured_line, structured_line, structured_line, twin_lines()), min_size=1, max_size=8).map("".join)


def strategy(tier):
    # walk: how the caller steps through the text - parseLines(text); parse(text) then parse() per line; or the first k lines
    # with parse() and the rest with parseLines() (resuming)
    # now and then a long file (the short text many times over, 8 KiB and more) or a byte order mark in front
    return st.tuples(st.one_of(free_text, structured, structured), st.sampled_from(["lines", "lines", "parse", "mixed"]), st.integers(1, 3),
                     st.sampled_from([1] * 60 + [120, 400]), st.sampled_from([""] * 12 + ["\ufeff"])).map(
        lambda t: {"text": t[4] + (t[0] * t[3] if len(t[0]) * t[3] < 40000 else t[0] * (40000 // max(1, len(t[0])))), "walk": t[1], "k": t[2]})


def walk(parser, text, how, k):
    """Yield the parser once per line, stepping through `text` the way `how` says."""
    if how == "lines":
        for line in parser.parseLines(text):
            yield line
        return
    parser.parse(text)
    n = 0
    while parser.offset < len(text):
        yield parser
        n += 1
        if how == "mixed" and n >= k:
            for line in parser.parseLines():
                yield line
            return
        parser.parse()


def run_case(case, strict=False):  # pylint: disable=unused-argument,too-many-branches
    text = case["text"]
    out = []

    def bad(tag, msg):
        out.append({"tag": tag, "msg": msg})

    parser = GcodeParser()
    pieces = []
    total = 0
    nlines = 0
    marked = 0
    cl = set()
    try:
        for line in walk(parser, text, case.get("walk", "lines"), case.get("k", 1)):
            nlines += 1
            pieces.append(line.fullText)
            total += line.length
            if line.comment is not None or line.checksum is not None:
                marked += 1
            if line.gcode is not None:
                cl.add("code_line")
                check_line(line, bad, cl)
            if nlines <= 400:
                # what a line is does not depend on what the parser has parsed before: a fresh parser reads the same line alike
                ft = line.fullText
                alone = GcodeParser().parse(ft)
                mine = (line.gcode, line.type, line.code, line.subCode, line.parameters, line.lineNumber, line.checksum, line.comment, line.commandString)
                theirs = (alone.gcode, alone.type, alone.code, alone.subCode, alone.parameters, alone.lineNumber, alone.checksum, alone.comment, alone.commandString)
                if mine != theirs:
                    bad("c18_line_depends_on_history", "line %r of %r is read as %r, a fresh parser reads it as %r" % (ft, text[:60], mine, theirs))
                    break
            if nlines > len(text) + 2:
                bad("c18_no_progress", "parseLines does not terminate on %r" % (text,))
                break
    except Exception as exc:  # pylint: disable=broad-except
        bad("c18_exception", "parsing %r raised %s: %s" % (text, type(exc).__name__, exc))
    if not out and text:
        # a second pass over the text the parser holds, from an explicit offset 0 (and from the second line's offset)
        try:
            again = "".join(line.fullText for line in parser.parseLines(None, 0))
            if again != text:
                bad("c18_lossless", "a second pass parseLines(offset=0) over the held text %r gives %r" % (text[:60], again[:60]))
            first = parser.parse(None, 0).fullText
            if pieces and first != pieces[0]:
                bad("c18_lossless", "parse(offset=0) on the held text %r gives %r, its first line is %r" % (text[:60], first, pieces[0]))
            if len(pieces) > 1:
                rest = "".join(line.fullText for line in parser.parseLines(None, len(pieces[0])))
                if rest != text[len(pieces[0]):]:
                    bad("c18_lossless", "parseLines(offset=%d) over the held text %r gives %r" % (len(pieces[0]), text[:60], rest[:60]))
                cl.add("second_pass_from_offset")
        except Exception as exc:  # pylint: disable=broad-except
            bad("c18_exception", "a second pass over the held text raised %s: %s" % (type(exc).__name__, exc))
    if not out and 0 < len(text) <= 400:
        # the parsers of two handler objects (the live print's and a file pre-processor's) are used in turn: neither disturbs the other
        try:
            from octoprint_excluderegion.GcodeHandlers import GcodeHandlers
            from octoprint_excluderegion.ExcludeRegionState import ExcludeRegionState
            log = env.make_logger(False)
            pa, pb = GcodeHandlers(ExcludeRegionState(log), log).gcodeParser, GcodeHandlers(ExcludeRegionState(log), log).gcodeParser
            got = []
            for line in pa.parseLines(text):
                got.append(line.fullText)
                pb.parse("M117 elsewhere ;c\nG1 X1\n")
                pb.parse()
            if "".join(got) != text:
                bad("c18_lossless", "with another handler object's parser used in between, parseLines turns %r into %r" % (text[:60], "".join(got)[:60]))
        except Exception as exc:  # pylint: disable=broad-except
            bad("c18_exception", "two handler objects' parsers used in turn raised %s: %s" % (type(exc).__name__, exc))
    if not out:
        # the parser object is used again for another text (also the empty one), whatever state the walk left it in
        two = "G1 X1 ;c\nM117 hi\r\n"
        try:
            parser.parse(two)                      # only its first line is looked at ...
            for other in ("", two, text[:7], ""):   # ... then other texts, also the empty one
                again = "".join(line.fullText for line in parser.parseLines(other))
                if again != other:
                    bad("c18_lossless", "after %r (and the first line of %r) the same parser turns %r into %r" % (text[:40], two, other, again))
                    break
                if other:
                    parser.parse(other)
        except Exception as exc:  # pylint: disable=broad-except
            bad("c18_exception", "re-using the parser raised %s: %s" % (type(exc).__name__, exc))
    if not out or all(f["tag"].startswith("c18_norm") or f["tag"].startswith("c18_checksum") for f in out):
        if total != len(text):
            bad("c18_consumed", "lines consume %d of %d characters of %r" % (total, len(text), text))
        if "".join(pieces) != text:
            bad("c18_lossless", "concatenated fullText %r differs from the input %r" % ("".join(pieces), text))
    cl.add("walk_" + case.get("walk", "lines"))
    return out, {"nontrivial": nlines >= 2 and marked >= 1, "classes": sorted(cl)}


def check_line(line, bad, cl):
    cs = line.commandString
    gcode, sub, prm, num = line.gcode, line.subCode, line.parameters, line.lineNumber
    fresh = GcodeParser().parse(cs)
    if (fresh.gcode, fresh.subCode, fresh.parameters) != (gcode, sub, prm):
        bad("c18_norm_reparse", "re-parsing %r gives %r, the line had %r" % (cs, (fresh.gcode, fresh.subCode, fresh.parameters), (gcode, sub, prm)))
    elif fresh.commandString != cs:
        bad("c18_norm_idempotent", "normalising %r again gives %r" % (cs, fresh.commandString))
    # render with line number + checksum and validate
    probe = GcodeParser().parse(cs)
    if probe.gcode is None:
        return
    if probe.lineNumber is None:
        probe.lineNumber = 7
    else:
        cl.add("has_line_number")
    if probe.leadingWhitespace:
        cl.add("leading_blanks")
    rendered = probe.stringify(includeComment=False, includeEol=False)
    back = GcodeParser().parse(rendered)
    try:
        back.validate()
    except ValueError as exc:
        bad("c18_checksum_validate", "line %r rendered as %r does not validate: %s" % (cs, rendered, exc))
    # independent (Marlin-style) validation: XOR of the bytes after the leading blanks up to the last '*'
    body = rendered.lstrip(" ")
    star = body.rfind("*")
    if star < 0 or not body[star + 1:].isdigit():
        bad("c18_checksum_missing", "rendered line %r carries no checksum" % (rendered,))
    else:
        x = 0
        for byte in body[:star].encode("utf-8"):
            x ^= byte
        if x != int(body[star + 1:]):
            bad("c18_checksum_independent", "rendered line %r: checksum %s, XOR of the text is %d" % (rendered, body[star + 1:], x))
    if (back.gcode, back.subCode, back.parameters, back.lineNumber) != (gcode, sub, prm, probe.lineNumber):
        bad("c18_norm_rendered", "rendered line %r re-parses to %r, expected %r" % (rendered, (back.gcode, back.subCode, back.parameters, back.lineNumber), (gcode, sub, prm, num)))


# ---------------------------------------------------------------- secondary engine (thorough tier)
def fuzz_decode(data):
    return {"text": data.decode("utf-8", "ignore")}


def extra_engines(tier, col, seedval):
    """atheris campaign on raw bytes (empty corpus and a corpus of example lines)."""
    if tier != "thorough":
        return
    from vlib import fuzz
    for corpus in ((), (b"N1 G1 X1 Y2*33 ; c\r\n", b" G28\n@ExcludeRegion off\nM117 hi ; x\n", b"g1x1y2\nT0\nG38.2 Z-1\n")):
        res = fuzz.campaign("C18", 60000, seedval, corpus)
        col.extra["atheris_available"] += int(res["available"])
        col.extra["atheris_execs"] += res["execs"]
        col.extra["atheris_distinct_nontrivial"] += res["nontrivial"]
        if res["failing_case"]:
            case, findings = res["failing_case"]
            col.note(case, findings, {"nontrivial": True})
            from vlib.runner import Failure
            raise Failure("atheris: " + findings[0]["msg"])
