"""C04 - Extruder coordinate and extruded amounts are preserved outside regions."""
from vlib import env, core, gen, asserts, printer, gread  # noqa: F401

ID = "C04"
BUDGET = {"quick": 2000, "thorough": 25000}
PROFILE = gen.profile(retract="matched", home_mid=False, cvisit=3, cyc_w=8)
RULE = ("Programs in absolute extrusion mode with matched equal-length retract/recover cycles (per program either E-only or "
        "G10/G11; one cycle length from {0.508,1.27,2.54} mm so that mm and inch renderings are exact), extruding moves only "
        "while not retracted, G92 E anywhere, mm/inch, absolute/relative XYZ, regions and region additions as in C01. "
        "Non-trivial = an episode was closed and a later command carrying an E word was forwarded. Distinct by SHA-1 of the case.")
ASSUMPTIONS = [
    "reference printer models Marlin 1.1.x; E and filament amounts compared with 1e-6 mm + 1e-9 relative",
    "no E word is generated while G91 is active and G90-influences-extruder is on (relative extrusion is outside the property's 'absolute extrusion mode' domain)",
    "episode oracle as in C01; arcs I/J absolute only",
]


def strategy(tier):
    # thorough tier: programs of up to 100 ops (quick: 40)
    return gen.cases(dict(PROFILE, maxlen=100, long=15) if tier == "thorough" else PROFILE)


def run_case(case, strict=False):  # pylint: disable=unused-argument
    tr = core.run(case)
    findings = asserts.c04(tr)
    cl, _ = asserts.classes(tr, case)
    closed = False
    nontrivial = False
    for it in tr.items:
        if it.closing:
            closed = True
        elif closed and it.kind == "g" and it.u_step.read is not None and it.u_step.read.has_value("E") and it.out:
            nontrivial = True
    return findings, {"nontrivial": nontrivial, "classes": sorted(cl), "truncated": tr.truncated, "excluded_known": case.get("meta", {}).get("excluded_known", 0),
                      "sample": {"regions": case["regions"], "config": case["config"],
                                 "prog": [i[1] if i[0] == "g" else i for i in case["prog"]]}}


def selftest():
    printer.selftest()
    gread.selftest()
