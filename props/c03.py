"""C03 - Leaving a region re-synchronises the tool position (X, Y, Z, mode, units; Z ordering)."""
from vlib import env, core, gen, asserts, printer, gread, kf  # noqa: F401

ID = "C03"
BUDGET = {"quick": 2000, "thorough": 25000}
# G92 X/Y/Z outside episodes belongs to the C03 domain; while KF-G92-XYZ-SIGN is open those ops are not rendered (counted)
PROFILE = gen.profile(retract="matched", zbias=True, rebase=not kf.is_open("KF-G92-XYZ-SIGN"), rebase_w=1, park=True)
RULE = ("As C01 but restricted to the C03 quantifier (matched retract cycles; no G28 / G92 XYZ / M206 while an episode is "
        "open; G20/G21 and G90/G91 allowed inside episodes; exits by moving out and by @-disable); entering moves that also "
        "change Z or E are frequent. Non-trivial = a closed episode during which the file position (X, Y or Z) changed "
        "while suppressed. Distinct by SHA-1 of the concrete case.")
ASSUMPTIONS = [
    "reference printer (vlib/printer.py) models Marlin 1.1.x; positions compared with 1e-6 mm + 1e-9 relative",
    "episode oracle with margin 0 (trivial frame) / 1e-6 mm; cases truncated at the first destination within the margin of a border",
    "arcs: I/J form in absolute positioning only (open findings KF-C16-RCENTRE / KF-C01-ARC-G91)",
]


def strategy(tier):
    # thorough tier: programs of up to 100 ops (quick: 40)
    return gen.cases(dict(PROFILE, maxlen=100, long=15) if tier == "thorough" else PROFILE)


def run_case(case, strict=False):  # pylint: disable=unused-argument
    tr = core.run(case)
    findings = asserts.c03(tr)
    cl, _ = asserts.classes(tr, case)
    return findings, {"nontrivial": "position_changed_while_suppressed" in cl, "classes": sorted(cl),
                      "truncated": tr.truncated, "excluded_known": case.get("meta", {}).get("excluded_known", 0),
                      "sample": {"regions": case["regions"], "config": case["config"],
                                 "prog": [i[1] if i[0] == "g" else i for i in case["prog"]]}}


def selftest():
    printer.selftest()
    gread.selftest()
