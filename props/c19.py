"""C19 - Parameter extraction matches the RS274/Marlin reading.

Words are generated structurally (letter, spelling, case, gaps); the expected (letter, value)
pairs are the generator's own structure, so the oracle never parses."""
from hypothesis import strategies as st

from vlib import env, core, kf  # noqa: F401
from vlib.printer import close
from octoprint_excluderegion.GcodeParser import GcodeParser

ID = "C19"
BUDGET = {"quick": 5000, "thorough": 50000}
RULE = ("Hypothesis draws a list of words (letter A-Z minus G/M/N/T, upper or lower case; value spelling from sign? digits? "
        "point? digits? with at least one digit - incl. '5.', '.5', '+.5', '007', '-0' - or no value at all; optional blanks "
        "before the word and between letter and number), repeated letters allowed. Part 1 compares parameterItems() with the "
        "generated pairs; part 2 builds G0/G1/G2/G3/G92/G28 commands from words restricted to the handler's letters (after G28 and "
        "a positioning move, absolute or relative, mm or inch) and compares the tracked logical position / feed / homed axes with "
        "the last value given per letter. Non-trivial = a repeated letter or an unusual spelling (leading/trailing point, explicit "
        "plus, leading zeros, lower case, inner blanks). Distinct by SHA-1 of the case.")
ASSUMPTIONS = [
    "a word without digits is a valueless flag (ignored by the move handlers, honoured by G28)",
    "G92 X/Y/Z expectations are excluded while KF-G92-XYZ-SIGN is open (G92 E is always checked)",
]

LETTERS = "ABCDEFHIJKLOPQRSUVWXYZ"


@st.composite
def spelling(draw):
    """(text, float|None)"""
    kind = draw(st.sampled_from(["int", "dec", "dec", "lead", "trail", "none"]))
    if kind == "none":
        return "", None
    sign = draw(st.sampled_from(["", "", "-", "+"]))
    a = draw(st.sampled_from(["0", "1", "5", "12", "007", "250", "100000", "3"]))
    b = draw(st.sampled_from(["0", "5", "25", "001", "125", "9", "12345", "00004", "123456", "4999999", "03187"]))   # slicers write 5 decimals for E
    if kind == "int":
        txt = sign + a
    elif kind == "dec":
        txt = sign + a + "." + b
    elif kind == "lead":
        txt = sign + "." + b
    else:
        txt = sign + a + "."
    return txt, float(txt)


@st.composite
def word(draw, letters=LETTERS):
    letter = draw(st.sampled_from(letters))
    txt, val = draw(spelling())
    lower = draw(st.integers(0, 3)) == 0
    gap = draw(st.sampled_from(["", "", "", " ", "  "])) if txt else ""
    pre = draw(st.sampled_from([" ", " ", " ", "", "  "]))
    return {"l": letter, "t": txt, "v": val, "lower": lower, "gap": gap, "pre": pre}


def render(words):
    s = ""
    for w in words:
        s += w["pre"] + (w["l"].lower() if w["lower"] else w["l"]) + w["gap"] + w["t"]
    return s


@st.composite
def cases(draw):
    part = draw(st.sampled_from(["items", "handler", "handler"]))
    if part == "items":
        return {"part": "items", "words": draw(st.lists(word(), min_size=0, max_size=7))}
    code = draw(st.sampled_from(["G0", "G1", "G1", "G2", "G3", "G92", "G28"]))
    letters = {"G0": "XYZEF", "G1": "XYZEF", "G2": "XYZEFIJ", "G3": "XYZEFIJ", "G92": "XYZE", "G28": "XYZ"}[code]
    if code in ("G0", "G1", "G92", "G28"):
        letters += "SP"       # letters the handler must ignore
    if code == "G28":
        letters += "OW"       # (home-if-needed / without-mesh flags of other firmwares: no business of the tracked position)
    ws = draw(st.lists(word(letters), min_size=0, max_size=7))
    if code in ("G0", "G1", "G2", "G3") and draw(st.integers(0, 3)) == 0:
        # every axis letter once (in any order), then repetitions: the last value must win wherever it stands
        head = [draw(word(l)) for l in draw(st.permutations("XYZEF"))]
        ws = head + draw(st.lists(word("XYZEF"), min_size=1, max_size=4))
    for w in ws:
        if w["l"] in "IJ" and w["v"] is not None and abs(w["v"]) > 500:
            w["t"], w["v"] = "2.5", 2.5      # arc radii beyond 500 are outside the documented domain (and cost one point per unit)
    prior = None
    if draw(st.integers(0, 2)) == 0:
        # the same handlers / parser objects have processed another command before (same code or another word-reading one)
        pcode = draw(st.sampled_from([code, code, "G28", "G10", "G92", "G1", "G91", "G20"]))
        pl = {"G0": "XYZEF", "G1": "XYZEF", "G2": "XYZEFIJ", "G3": "XYZEFIJ", "G92": "E", "G28": "XYZ", "G10": "SPL", "G91": "S", "G20": "S"}[pcode]
        # how: the prior command went through the handlers; or the shared parser split the very text of the command under test
        # as a one-line script (walked to its end, as a settings save does); reset: a new print started in between
        prior = {"code": pcode, "words": draw(st.lists(word(pl), min_size=0 if pcode in ("G91", "G20") else 1, max_size=4)),
                 "how": draw(st.sampled_from(["handle", "handle", "split_same"])), "reset": draw(st.integers(0, 2)) == 0}
        for w in prior["words"]:
            if w["l"] in "IJ" and w["v"] is not None and abs(w["v"]) > 500:
                w["t"], w["v"] = "2.5", 2.5
    return {"part": "handler", "code": code, "words": ws, "prior": prior, "debug": draw(st.integers(0, 3)) == 0,
            "many": draw(st.sampled_from([0] * 40 + [530, 1100])),
            "rel": draw(st.integers(0, 3)) == 0, "inch": draw(st.integers(0, 3)) == 0,
            "lowcode": draw(st.integers(0, 5)) == 0}


def strategy(tier):
    return cases()


def unusual(words):
    seen = set()
    for w in words:
        if w["l"] in seen:
            return True
        seen.add(w["l"])
        t = w["t"]
        if w["lower"] or w["gap"] or w["pre"] != " " or t.startswith(("+", ".", "-.", "+.")) or t.endswith(".") or (len(t) > 1 and t.lstrip("+-").startswith("0") and not t.lstrip("+-").startswith("0.")):
            return True
    return False


def last_values(words):
    vals = {}
    for w in words:
        if w["v"] is not None:
            vals[w["l"]] = w["v"]
    return vals


def run_case(case, strict=False):  # pylint: disable=unused-argument,too-many-branches,too-many-locals,too-many-statements
    out = []
    cl = set([case["part"]])
    words = case["words"]

    def bad(tag, msg):
        out.append({"tag": tag, "msg": msg})

    text = render(words)
    if case["part"] == "items":
        want = [(w["l"], w["v"]) for w in words]
        try:
            got = [(k, v) for k, v in GcodeParser().parameterItems(text) if k != ""]
        except Exception as exc:  # pylint: disable=broad-except
            bad("c19_exception", "parameterItems(%r) raised %s: %s" % (text, type(exc).__name__, exc))
            got = want
        if got != want:
            bad("c19_items", "parameterItems(%r) = %r, reference reading %r" % (text, got, want))
        # the same through a full line parse
        line = "M900" + text
        p = GcodeParser().parse(line)
        if p.gcode == "M900":
            got2 = [(k, v) for k, v in p.parameterItems() if k != ""]
            if got2 != want:
                bad("c19_items_line", "parse(%r).parameterItems() = %r, reference reading %r" % (line, got2, want))
        return out, {"nontrivial": unusual(words), "classes": sorted(cl)}

    code = case["code"]
    cl.add(code)
    flt = core.DirectFilter({"debug": bool(case.get("debug"))}, [])
    if case.get("debug"):
        cl.add("debug_logging")
    if case.get("many"):
        # a long print before: the command under test once, then hundreds of distinct other commands on the same handlers / parser
        cl.add("after_many_commands")
        try:
            for c in ("G28", "G1 X10 Y20 Z3 E4 F1500"):
                flt.gcode(c)
            flt.handlers.handleGcode((case["code"].lower() if case.get("lowcode") else case["code"]) + render(words), case["code"], None)
            for n in range(case["many"]):
                flt.gcode("G1 X%d.%02d Y%d F%d" % (n % 50, n % 100, n // 50, 1000 + n))
            flt.gcode("G90")
            flt.gcode("G21")
        except Exception:  # pylint: disable=broad-except
            pass
    if case.get("prior"):
        cl.add("prior_command")
        for c in ("G28", "G1 X10 Y20 Z3 E4 F1500"):
            flt.gcode(c)
        try:
            flt.handlers.handleGcode(case["prior"]["code"] + render(case["prior"]["words"]), case["prior"]["code"], None)
        except Exception:  # pylint: disable=broad-except
            pass
        flt.gcode("G1 X5 Y5")
        if case["prior"].get("reset"):
            flt.state.resetState()          # what the plugin does on PRINT_STARTED; handlers and parser live on
            cl.add("prior_print")
        else:
            flt.gcode("G90")
            flt.gcode("G21")
    pre = ["G28", "G1 X10 Y20 Z3 E4 F1500"]
    if case.get("inch"):
        pre.append("G20")
        cl.add("inch")
    if case.get("rel"):
        pre.append("G91")
        cl.add("relative")
    for c in pre:
        flt.gcode(c)
    pos = flt.state.position
    axes = {"X": pos.X_AXIS, "Y": pos.Y_AXIS, "Z": pos.Z_AXIS, "E": pos.E_AXIS}
    before = dict((k, a.nativeToLogical()) for k, a in axes.items())
    feed_before = flt.state.feedRate / flt.state.feedRateUnitMultiplier
    cmd = (code.lower() if case.get("lowcode") else code) + text
    vals = last_values(words)
    if code in ("G2", "G3") and not (vals.get("I") or vals.get("J")):
        cmd += " I1.5"
        vals["I"] = 1.5
    if case.get("prior") and case["prior"].get("how") == "split_same":
        # the handlers' parser has just walked this very text to its end (a one-line script split on a settings save)
        try:
            for _ in flt.handlers.gcodeParser.parseLines(cmd):
                pass
        except Exception:  # pylint: disable=broad-except
            pass
    try:
        flt.handlers.handleGcode(cmd, code, None)
    except Exception as exc:  # pylint: disable=broad-except
        bad("c19_exception", "%r raised %s: %s" % (cmd, type(exc).__name__, exc))
        return out, {"nontrivial": unusual(words), "classes": sorted(cl)}
    after = dict((k, a.nativeToLogical()) for k, a in axes.items())
    feed_after = flt.state.feedRate / flt.state.feedRateUnitMultiplier
    rel = bool(case.get("rel"))
    if code in ("G0", "G1", "G2", "G3"):
        for k in "XYZE":
            want = before[k]
            if k in vals:
                want = before[k] + vals[k] if (rel and k != "E") else vals[k]
            tol = 1e-7 if (rel and code in ("G2", "G3")) else 1e-9     # relative arcs accumulate per-segment offsets
            if not close(after[k], want, tol):
                bad("c19_move_axis", "%r (frame rel=%s inch=%s): tracked logical %s is %r, the last value given says %r" % (cmd, rel, case.get("inch"), k, after[k], want))
        wantf = vals.get("F", feed_before)
        if not close(feed_after, wantf, 1e-9):
            bad("c19_feed", "%r: tracked feed is %r, expected %r" % (cmd, feed_after, wantf))
    elif code == "G92":
        skip_xyz = kf.is_open("KF-G92-XYZ-SIGN") and not strict
        for k in "XYZE":
            if k in vals and (k == "E" or (not skip_xyz and not rel)):
                if not close(after[k], vals[k], 1e-9):
                    bad("c19_g92", "%r: tracked logical %s is %r afterwards, expected %r" % (cmd, k, after[k], vals[k]))
            elif k not in vals and not close(after[k], before[k], 1e-9):
                bad("c19_g92_untouched", "%r changed logical %s from %r to %r" % (cmd, k, before[k], after[k]))
        if skip_xyz and any(k in vals for k in "XYZ"):
            return out, {"nontrivial": unusual(words), "classes": sorted(cl), "excluded_known": 1}
    elif code == "G28":
        named = [w["l"] for w in words if w["l"] in "XYZ"]
        homed = named or ["X", "Y", "Z"]
        for k, a in axes.items():
            if k == "E":
                continue
            if k in homed:
                if a.current != 0:
                    bad("c19_g28", "%r: axis %s not homed (native %r)" % (cmd, k, a.current))
            elif not close(after[k], before[k], 1e-9):
                bad("c19_g28_untouched", "%r moved un-named axis %s" % (cmd, k))
    return out, {"nontrivial": unusual(words), "classes": sorted(cl)}
