"""C20 - Offline stream filtering equals live filtering and is isolated (differential twin)."""
import copy
import io

from hypothesis import strategies as st

from vlib import env, core, gen, gread, printer  # noqa: F401
from octoprint_excluderegion.StreamProcessor import StreamProcessor
from octoprint_excluderegion.GcodeHandlers import GcodeHandlers

ID = "C20"
BUDGET = {"quick": 1500, "thorough": 15000}
PROFILE = gen.profile(retract="matched", reg_events=False, maxlen=25, at_w=3, ext_w=4)
RULE = ("A live state history (prefix program: the live state may be mid-episode, in inches, relative, with pending deferred "
        "commands or an owed recovery), then a file built from a generated program: each command line in canonical spelling, "
        "optionally wrapped with N<n>, *<checksum>, trailing blanks and '; comment'; blank, whitespace-only and comment-only "
        "lines; matching and non-matching @-commands; LF or CRLF endings (per file, occasionally mixed), last line with or without "
        "terminator. Oracle: a twin GcodeHandlers on a deep copy of the live state is fed what the live hooks would see for each "
        "line (independent normaliser). Non-trivial = file with at least one rewritten, one suppressed and one untouched command "
        "line. Distinct by SHA-1 of the case.")
ASSUMPTIONS = [
    "the live path sees, for a command line, the text without line number, checksum, comment and surrounding blanks (OctoPrint's process_gcode_line), and for '@cmd params' the command and parameter string",
    "elements of a rewritten result are compared as commands (text after strip(), or equal code / sub-code / parameter words through the independent reader); untouched lines byte for byte",
]


@st.composite
def cases(draw):
    base = draw(gen.cases(PROFILE))
    prog = base["prog"]
    cut = draw(st.integers(2, max(2, len(prog))))
    prefix, rest = list(prog[:cut]), prog[cut:]
    if base["regions"] and draw(st.integers(0, 2)) == 0:
        # live state with an owed recovery by construction: retract, move into a region, recover there (swallowed), perhaps leave
        pr = printer.Printer()
        for item in prefix:
            if item[0] == "g":
                pr.execute(item[1])
        rnd = gen.Renderer({}, base["regions"], PROFILE, 0.508, False, False)
        tx, ty = rnd.target("in", draw(st.integers(0, 3)), draw(st.integers(0, 100)), draw(st.integers(0, 100)))
        fw = draw(st.booleans())
        e = pr.e if pr.eabs else 0.0
        prefix += [["g", "G90"], ["g", "G21"], ["g", "G10" if fw else "G1 E%s F1800" % gen.fmt(e - 1.27)],
                   ["g", "G1 X%s Y%s" % (gen.fmt(tx), gen.fmt(ty))], ["g", "G11" if fw else "G1 E%s F1800" % gen.fmt(e)]]
        if not base["config"].get("ext") and draw(st.booleans()):
            base["config"]["ext"] = {"M106": draw(st.sampled_from(["merge", "first"])), "M117": draw(st.sampled_from(["first", "first", "last", "exclude"])),
                                     "M204": draw(st.sampled_from(["last", "first"])), "T": draw(st.sampled_from(["first", "last"]))}
        ext = sorted((base["config"].get("ext") or {}).keys())
        if ext and draw(st.integers(0, 3)) > 0:
            for code in draw(st.lists(st.sampled_from(ext), min_size=1, max_size=3)):
                prefix.append(["g", code + (" live" if code == "M117" else " S%d" % draw(st.integers(0, 9)))])
        elif draw(st.booleans()):
            prefix.append(["g", "G1 X1 Y1"])
    eol = draw(st.sampled_from(["\n", "\n", "\r\n"]))
    mixed = draw(st.integers(0, 9)) == 0
    lines = []
    n = 1
    for item in rest:
        if draw(st.integers(0, 6)) == 0:
            lines.append(draw(st.sampled_from(["", "   ", "; just a comment", " ;c", "\t"])))
        if item[0] == "g":
            body = item[1]
            if draw(st.integers(0, 9)) == 0:
                # a sub-coded command: the live hooks receive code and sub-code separately ("G91", "1")
                lines.append(draw(st.sampled_from(["G91.1", "G90.1", "G28.1 X", "M204.1 S5", "G10.1", "G11.1", "G1.0 X3 Y3", "G92.1", "G20.1", "G21.1",
                                                   "M117.1 sub", "G38.2 Z-1", "G0.1 X2"])))
                if draw(st.booleans()):
                    lines.append(draw(st.sampled_from(["T1", "T0", "M117 after", "G4 P1"])))      # a code without sub-code right after it
            if draw(st.integers(0, 4)) == 0:
                body = "N%d %s" % (n, body)
                n += 1
                if draw(st.booleans()):
                    x = 0
                    for b in body.encode("utf-8"):
                        x ^= b
                    body += "*%d" % x
            body = draw(st.sampled_from(["", "", "", " "])) + body + draw(st.sampled_from(["", "", " ", "  "]))
            if draw(st.integers(0, 3)) == 0 and not item[1].startswith(("M117", "M118")):
                body += draw(st.sampled_from(["; comment", ";", " ; X1 Y2 *5"]))
            lines.append(body)
        elif item[0] == "at":
            lines.append(draw(st.sampled_from(["", "", " ", "  "])) + ("@%s %s" % (item[1], item[2]) if item[2] else "@" + item[1]))
    text = []
    for i, ln in enumerate(lines):
        e = eol if not mixed else draw(st.sampled_from(["\n", "\r\n"]))
        if i == len(lines) - 1 and draw(st.booleans()):
            e = ""
        text.append(ln + e)
    after = []
    if draw(st.integers(0, 3)) == 0:
        # the live print goes on between creating the processor and reading the file: the file is filtered from the state the
        # processor was created from
        after = draw(st.lists(st.sampled_from([["g", "G91"], ["g", "G1 X5 Y5"], ["g", "G20"], ["at", "ExcludeRegion", "off"], ["g", "G92 E3"],
                                               ["g", "G1 X30 Y30 F900"], ["g", "G10"], ["g", "G28 X"], ["at", "ExcludeRegion", "on"]]), min_size=1, max_size=4))
        if base["regions"] and draw(st.booleans()):
            rnd2 = gen.Renderer({}, base["regions"], PROFILE, 0.508, False, False)
            tx, ty = rnd2.target("in", draw(st.integers(0, 3)), draw(st.integers(0, 100)), draw(st.integers(0, 100)))
            after.append(["g", "G1 X%s Y%s" % (gen.fmt(tx), gen.fmt(ty))])
    return {"config": base["config"], "regions": base["regions"], "prefix": prefix, "lines": text, "after_create": after,
            "earlier_file": draw(st.integers(0, 3)) == 0}


def strategy(tier):
    return cases()


def normalise_line(line):
    """What the live hooks would see: ('g', cmd) | ('at', cmd, params) | None; plus the line ending."""
    eol = ""
    body = line
    for e in ("\r\n", "\n", "\r"):
        if body.endswith(e):
            body, eol = body[:-len(e)], e
            break
    stripped = body
    # comment (';' not escaped - the generator never escapes)
    p = stripped.find(";")
    if p >= 0:
        stripped = stripped[:p]
    stripped = stripped.strip(" \t")
    if stripped.startswith("@"):
        parts = stripped.split(None, 1)
        return ("at", parts[0][1:], parts[1] if len(parts) > 1 else ""), eol
    # line number / checksum
    q = stripped.rfind("*")
    if q >= 0 and stripped[q + 1:].isdigit():
        stripped = stripped[:q]
    if stripped[:1] in "Nn":
        k = 1
        while k < len(stripped) and stripped[k].isdigit():
            k += 1
        if k > 1:
            stripped = stripped[k:]
    stripped = stripped.strip(" ")
    rd = gread.read(stripped)
    if rd is None:
        return None, eol
    return ("g", stripped), eol


def run_case(case, strict=False):  # pylint: disable=unused-argument,too-many-locals,too-many-branches
    out = []

    def bad(tag, msg):
        out.append({"tag": tag, "msg": msg})

    live = core.DirectFilter(case["config"], case["regions"])
    for item in case["prefix"]:
        try:
            if item[0] == "g":
                live.gcode(item[1])
            elif item[0] == "at":
                live.at(item[1], item[2])
        except Exception:  # pylint: disable=broad-except
            pass
    snap_created = core.state_snapshot(live.state)
    twin_state = copy.deepcopy(live.state)
    twin = GcodeHandlers(twin_state, env.make_logger())
    twin_comm = core.Comm()
    if case.get("earlier_file"):
        # another file was filtered before, by a processor of its own created from the same live state
        sp0 = StreamProcessor(io.BytesIO(b""), live.handlers)
        for line in ["G91\n", "G1 X3 Y3\n", "G20\n", "M117 other file\n"] + case["lines"][:4]:
            try:
                sp0.process_line(line)
            except Exception:  # pylint: disable=broad-except
                pass
    sp = StreamProcessor(io.BytesIO(b""), live.handlers)
    for item in case.get("after_create") or []:
        try:
            if item[0] == "g":
                live.gcode(item[1])
            elif item[0] == "at":
                live.at(item[1], item[2])
        except Exception:  # pylint: disable=broad-except
            pass
    snap_before = core.state_snapshot(live.state)
    last_eol = None
    kinds = set()
    cl = set()
    if case.get("earlier_file"):
        cl.add("second_processor_from_the_same_state")
    if snap_created["excluding"]:
        cl.add("live_state_mid_episode")
    if snap_created["pending"]:
        cl.add("live_state_pending")
    if snap_created["retraction"] is not None and snap_created["retraction"][3]:
        cl.add("live_state_owed_recovery")
    if snap_before != snap_created:
        cl.add("live_state_moved_on_after_creation")
    for idx, line in enumerate(case["lines"]):
        seen, eol = normalise_line(line)
        if eol:
            last_eol = eol
        use_eol = eol or last_eol or "\n"
        if eol == "\r\n":
            cl.add("crlf")
        try:
            got = sp.process_line(line)
        except Exception as exc:  # pylint: disable=broad-except
            bad("c20_exception", "line %d %r: process_line raised %s: %s" % (idx, line, type(exc).__name__, exc))
            break
        if seen is None:
            want = line
        elif seen[0] == "g":
            rd = gread.read(seen[1])
            res = twin.handleGcode(seen[1], rd.code if rd.code[0] != "T" else "T", None if rd.sub is None else str(rd.sub))
            if res is None:
                want = line
                kinds.add("untouched")
            else:
                fwd = core.normalise(seen[1], res)
                if not fwd:
                    want = None
                    kinds.add("suppressed")
                else:
                    want = use_eol.join(fwd) + use_eol
                    kinds.add("rewritten")
        else:
            twin_comm.sent = []
            handled = twin.handleAtCommand(twin_comm, seen[1], seen[2])
            if not handled:
                want = line
            elif twin_comm.sent:
                want = use_eol.join(twin_comm.sent) + use_eol
                cl.add("at_command_output")
            else:
                want = None
        if (want is line and got != line) or not same(got, want, use_eol):
            bad("c20_differs", "line %d %r: stream processor returns %r, the live path gives %r" % (idx, line, got, want))
            break
    if core.state_snapshot(live.state) != snap_before:
        bad("c20_live_state_modified", "filtering a file modified the live plugin state")
    return out, {"nontrivial": kinds >= {"untouched", "suppressed", "rewritten"}, "classes": sorted(cl | kinds),
                 "sample": {"lines": case["lines"][:20]}}


def same(got, want, eol):
    """want is the input line itself (untouched: byte for byte), None (suppressed) or eol.join(list)+eol."""
    if got is None or want is None:
        return got is want
    if not isinstance(got, str):
        return False
    if got == want:
        return True
    if not want.endswith(eol) or not got.endswith(eol):
        return False
    g = got[:-len(eol)].split(eol)
    w = want[:-len(eol)].split(eol)
    if any(("\n" in x or "\r" in x) for x in g):
        return False
    if len(g) != len(w):
        return False
    for a, b in zip(g, w):
        if a.strip() == b.strip():
            continue
        # the same command in another spelling ("G10S1" / "G10 S1") is the same command
        ra, rb = gread.read(a), gread.read(b)
        if ra is None or rb is None or (ra.code, ra.sub, ra.words, ra.text) != (rb.code, rb.sub, rb.words, rb.text):
            return False
        if ra.code.startswith("T"):
            return False        # (a tool change has no other spelling: 'T1.1' is not 'T1')
    return True


def selftest():
    assert normalise_line("N5 G1 X1*33 ; c\r\n") == (("g", "G1 X1"), "\r\n")
    assert normalise_line("  @ExcludeRegion off now\n") == (("at", "ExcludeRegion", "off now"), "\n")
    assert normalise_line(" ; c\n") == (None, "\n") and normalise_line("G28") == (("g", "G28"), "")
    assert normalise_line("@pause") == (("at", "pause", ""), "")
