"""C05 - Retractions are never doubled and are recovered before printing resumes."""
from vlib import env, core, gen, asserts, printer, gread  # noqa: F401

ID = "C05"
BUDGET = {"quick": 2000, "thorough": 25000}
PROFILE = gen.profile(retract="matched", home_mid=False, cvisit=4, cyc_w=14, arcs=1)
RULE = ("Programs with matched equal-length retract/recover cycles (per program E-only or G10/G11, never mixed), retract / "
        "recover / enter / exit alternations weighted up; depth = filament high-water mark minus position on the reference "
        "printer, filtered vs unfiltered. Non-trivial = at least two cycles of which at least one is cut by an episode "
        "boundary (retract and matching recover on different sides of an opening or closing move). Distinct by SHA-1 of the case.")
ASSUMPTIONS = [
    "reference printer models Marlin 1.1.x firmware retraction as a flag (a G10 while retracted is ignored and counted)",
    "depths compared with 1e-6 mm tolerance; invariants evaluated after each program command (after its whole forwarded list)",
    "episode oracle as in C01; arcs I/J absolute only",
]


def strategy(tier):
    # thorough tier: programs of up to 100 ops (quick: 40)
    return gen.cases(dict(PROFILE, maxlen=100, long=15) if tier == "thorough" else PROFILE)


def run_case(case, strict=False):  # pylint: disable=unused-argument
    tr = core.run(case)
    fw = bool(case.get("meta", {}).get("fw"))
    findings = asserts.c05(tr, fw)
    cl, _ = asserts.classes(tr, case)
    # cycles and cuts
    cycles = 0
    cut = False
    retracted_epoch = None
    epoch = 0
    for it in tr.items:
        if it.opening or it.closing:
            epoch += 1
        if it.kind != "g" or it.u_step is None:
            continue
        st = it.u_step
        is_ret = st.kind == "fwretract" or (st.kind == "linear" and st.dfil < 0)
        is_rec = st.kind == "fwrecover" or (st.kind == "linear" and st.dfil > 0 and not st.is_move)
        if is_ret and retracted_epoch is None:
            retracted_epoch = epoch
        elif is_rec and retracted_epoch is not None:
            cycles += 1
            if epoch != retracted_epoch:
                cut = True
            retracted_epoch = None
    if cut:
        cl.add("cycle_cut_by_boundary")
    cl.add("firmware_retraction" if fw else "e_only_retraction")
    return findings, {"nontrivial": cycles >= 2 and cut, "classes": sorted(cl), "truncated": tr.truncated, "excluded_known": case.get("meta", {}).get("excluded_known", 0),
                      "sample": {"regions": case["regions"], "config": case["config"],
                                 "prog": [i[1] if i[0] == "g" else i for i in case["prog"]]}}


def selftest():
    printer.selftest()
    gread.selftest()
