"""C12 - Excluded area never shrinks during an active print unless explicitly allowed."""
import math

from hypothesis import strategies as st
from hypothesis.stateful import RuleBasedStateMachine, rule, initialize

from vlib import env, core, geom, plugin_harness, stateful  # noqa: F401
from vlib.plugin_harness import Harness

ID = "C12"
BUDGET = {"quick": 1500, "thorough": 6000}
STEPS = {"quick": 25, "thorough": 50}
RULE = ("RuleBasedStateMachine over the API during an active print with the shrink setting off (a minority of steps toggles the "
        "setting or ends/restarts the print; the safety invariant is only asserted for steps taken under the property's "
        "condition): add, delete and update requests whose geometry is derived from the old region - identical, grown or shrunk "
        "by 0 / 1e-9 / 0.5 / 3, shifted, type-changed (circumscribed / inscribed circle of a rectangle and vice versa, exact and "
        "nearly touching), random - covering all four old/new type pairs. Oracle: for a fixed probe set of every existing region "
        "(centre, corners / cardinal points, edge midpoints, 32-point boundary ring, interior grid) 'excluded before implies "
        "excluded after', refused requests leave the list identical, deletes are refused. One evaluation = one request history. "
        "Non-trivial = at least one accepted and one refused update under the condition. Distinct by SHA-1 of the op list.")
ASSUMPTIONS = [
    "a probe point counts as lost only if it lies outside every remaining region by more than 1e-9 * coordinate scale (one-ulp disagreements of hypot / additions are not reported, geometric errors are)",
    "membership is read through ExcludeRegionState.isPointExcluded with exclusion enabled",
]


def to_internal(d):
    if d["type"] == "RectangularRegion":
        return {"type": "rect", "x1": d["x1"], "y1": d["y1"], "x2": d["x2"], "y2": d["y2"]}
    return {"type": "circ", "cx": d["cx"], "cy": d["cy"], "r": d["r"]}


def probe_points(regs):
    pts = []
    if len(regs) > 26:
        regs = regs[:13] + regs[-13:]        # (after a burst of parts: the oldest and the newest regions)
    for d in regs:
        ex, ring = geom.probes(to_internal(d), ring=32, pull=1.0)
        pts += ex + ring
    return pts


class Stepper(object):
    def __init__(self, case):
        self.h = Harness(case.get("config", {}))
        self.h.event("PRINT_STARTED")
        # reference model of the property's condition (never read back from the plugin)
        self.active = True
        self.enabled = True      # '@ExcludeRegion off' in the file: nothing is suppressed meanwhile, the regions are as protected as ever
        self.may_shrink = bool(case.get("config", {}).get("may_shrink"))
        self.accepted = self.refused = 0
        self.classes = set()
        self.n = 0

    def info(self):
        return {"nontrivial": self.accepted >= 1 and self.refused >= 1, "classes": sorted(self.classes)}

    def condition(self):
        return self.active and not self.may_shrink

    def step(self, op):  # pylint: disable=too-many-branches,too-many-locals
        out = []
        h = self.h

        def bad(tag, msg):
            out.append({"tag": tag, "msg": "op %r: %s" % (op, msg)})

        if op[0] == "setting":
            h.update_settings(**{op[1]: op[2]})       # stores the value and delivers SETTINGS_UPDATED
            if op[1] == "mayShrinkRegionsWhilePrinting":
                self.may_shrink = bool(op[2])
            return out
        if op[0] == "at":
            h.at("ExcludeRegion", op[1])
            self.enabled = (op[1] == "on")
            self.classes.add("exclusion_switched_" + op[1])
            return out
        if op[0] == "creep":
            _, rid, n, eps = op
            cur = [r for r in h.regions() if r["id"] == rid]
            if not cur or not self.condition():
                return out
            first = to_internal(cur[0])
            pts = probe_points([cur[0]])
            was = [bool(h.state.isPointExcluded(x, y)) or geom.signed_dist(first, x, y) <= 0 for (x, y) in pts]
            reg = dict(cur[0])
            for _ in range(n):
                if reg["type"] == "CircularRegion":
                    reg = dict(reg, r=max(0.0, reg["r"] - eps))
                else:
                    reg = dict(reg, x2=reg["x2"] - eps, y1=reg["y1"] + eps)
                h.api("updateExcludeRegion", dict(reg))
            scale = max([1.0] + [abs(v) for v in first.values() if isinstance(v, (int, float))])
            regs_after = [to_internal(d) for d in h.regions()]
            for (x, y), w in zip(pts, was):
                if w and not (self.enabled and h.state.isPointExcluded(x, y)):
                    gap = min([geom.signed_dist(r, x, y) for r in regs_after] or [float("inf")])
                    if gap > 1e-9 * scale or (self.enabled and abs(gap) > 1e-9 * scale):
                        bad("c12_area_shrank", "after %d updates shrinking %r by %r each, point (%r,%r) is no longer excluded (gap %r)" % (n, rid, eps, x, y, gap))
                        break
            self.classes.add("creep")
            return out
        if op[0] == "burst":
            _, n, twin, base = op
            for k in range(n):
                kk = k - 1 if (twin and k % 10 == 9) else k          # (every tenth repeats its predecessor's geometry)
                h.api("addExcludeRegion", {"type": "RectangularRegion", "x1": 100.0 + 3 * (kk % 20), "y1": 100.0 + 3 * (kk // 20),
                                           "x2": 102.0 + 3 * (kk % 20), "y2": 102.0 + 3 * (kk // 20), "id": "m%d_%d" % (base, k)})
                # every part added so far is still excluded (centre probe; the full probe set runs at the next request)
                if self.condition() and self.enabled:
                    for j in range(0, k + 1, 7):
                        jj = j - 1 if (twin and j % 10 == 9) else j
                        if not h.state.isPointExcluded(101.0 + 3 * (jj % 20), 101.0 + 3 * (jj // 20)):
                            bad("c12_area_shrank", "after adding part %d of a burst the centre of part %d is no longer excluded" % (k, j))
                            return out
            self.classes.add("burst_of_%d" % n)
            return out
        if op[0] == "event":
            h.event(op[1])
            if op[1] == "PRINT_STARTED":
                self.active = True
            elif op[1] in ("PRINT_DONE", "PRINT_FAILED", "PRINT_CANCELLING", "PRINT_CANCELLED", "ERROR"):
                self.active = False
            return out
        cond = self.condition()
        try:
            return self._request(op, cond, out, bad)
        except Exception as exc:  # pylint: disable=broad-except
            # (serialising or testing a legal region must not raise; neither may a request)
            bad("c12_exception", "%s: %s" % (type(exc).__name__, exc))
            return out

    def _request(self, op, cond, out, bad):  # pylint: disable=too-many-branches,too-many-locals
        h = self.h
        before = h.regions()
        pts = probe_points(before)
        # a point counts as excluded before the request if the plugin says so or if it lies in one of the listed regions by an
        # independent closed test (so a broken membership test cannot make the invariant vacuous)
        regs_before = [to_internal(d) for d in before]
        inside_before = [bool(h.state.isPointExcluded(x, y)) or any(geom.signed_dist(r, x, y) <= 0 for r in regs_before) for (x, y) in pts]
        _, command, data = op
        resp = h.api(command, data)
        after = h.regions()
        if not cond:
            self.classes.add("step_outside_condition")
            return out
        refused = resp is not None
        if command == "deleteExcludeRegion":
            self.classes.add("delete")
            if not refused and any(r["id"] == data.get("id") for r in before):
                bad("c12_delete_accepted", "delete of an existing region accepted during an active print")
        if refused:
            if after != before:
                bad("c12_refused_changes", "refused request (%r) changed the list" % (resp,))
            if command == "updateExcludeRegion":
                self.refused += 1
                self.classes.add("update_refused")
        else:
            if command == "updateExcludeRegion":
                self.accepted += 1
                old = [r for r in before if r["id"] == data.get("id")]
                if old:
                    self.classes.add("update_accepted_%s_to_%s" % (old[0]["type"][:4], data["type"][:4]))
        regs_after = [to_internal(d) for d in after]
        scale = max([1.0] + [abs(v) for d in before + after for k, v in d.items() if k not in ("type", "id") and isinstance(v, (int, float))])
        for (x, y), was in zip(pts, inside_before):
            if was and not (self.enabled and h.state.isPointExcluded(x, y)):
                gap = min([geom.signed_dist(r, x, y) for r in regs_after] or [float("inf")])
                if not self.enabled and gap <= 1e-9 * scale:
                    continue        # exclusion is switched off by the file: the point is still inside a listed region, which is all that can be said
                if gap > 1e-9 * scale:
                    bad("c12_area_shrank", "point (%r,%r) was excluded before the request and is not afterwards (outside by %r); response %r" % (x, y, gap, resp))
                    break
                if gap < -1e-9 * scale:
                    # well inside a region that is still listed, yet no longer excluded: the list is intact, the exclusion is not
                    bad("c12_area_shrank", "point (%r,%r) was excluded before the request and is not afterwards although it lies %r inside a listed region; response %r" % (x, y, -gap, resp))
                    break
        return out


def run_case(case, strict=False):  # pylint: disable=unused-argument
    import props.c12 as mod
    return stateful.replay(mod, case)


small = st.sampled_from([0.0, 1e-9, 0.5, 3.0])
coord = st.one_of(st.integers(0, 60).map(float), st.sampled_from([10.25, 20.5, 33.1, 7.75]))


def derive(old, how, delta, shift):  # noqa: C901  pylint: disable=too-many-branches
    """New geometry for an update of `old` (API dict)."""
    if how.startswith("cut"):
        # the bounding box of the old region, grown by 1 on three sides and moved inward by delta (or 0.25) on the fourth
        side = int(how[3])
        if old["type"] == "RectangularRegion":
            box = [old["x1"], old["y1"], old["x2"], old["y2"]]
        else:
            box = [old["cx"] - old["r"], old["cy"] - old["r"], old["cx"] + old["r"], old["cy"] + old["r"]]
        new = [box[0] - 1, box[1] - 1, box[2] + 1, box[3] + 1]
        d = delta if delta >= 0.5 else 0.25
        new[side] = box[side] + (d if side < 2 else -d)
        return {"type": "RectangularRegion", "x1": new[0], "y1": new[1], "x2": new[2], "y2": new[3]}
    if old["type"] == "RectangularRegion":
        x1, y1, x2, y2 = old["x1"], old["y1"], old["x2"], old["y2"]
        cx, cy = (x1 + x2) / 2, (y1 + y2) / 2
        if how == "grow":
            return {"type": "RectangularRegion", "x1": x1 - delta, "y1": y1 - delta, "x2": x2 + delta, "y2": y2 + delta}
        if how == "shrink":
            return {"type": "RectangularRegion", "x1": x1 + delta, "y1": y1, "x2": x2, "y2": y2 - delta}
        if how == "shift":
            return {"type": "RectangularRegion", "x1": x1 + shift, "y1": y1, "x2": x2 + shift + delta, "y2": y2}
        if how == "grow_one_side":
            return {"type": "RectangularRegion", "x1": x1, "y1": y1 - delta, "x2": x2 + 3, "y2": y2}
        if how == "odd_cut":
            how = "miss%d" % (int(abs(shift) * 2) % 4)
        if how.startswith("miss"):
            # a disc that covers three corners of the old rectangle and leaves the fourth one out
            k = int(how[4])
            kx, ky = (x1, x2)[k & 1], (y1, y2)[(k >> 1) & 1]
            ox, oy = cx - 0.3 * (kx - cx), cy - 0.3 * (ky - cy)
            dk = math.hypot(kx - ox, ky - oy)
            others = max(math.hypot(px - ox, py - oy) for px in (x1, x2) for py in (y1, y2) if (px, py) != (kx, ky)) if (x1 != x2 and y1 != y2) else dk
            if others < dk:
                return {"type": "CircularRegion", "cx": ox, "cy": oy, "r": (others + dk) / 2}
            how = "circum"
        if how == "circum":
            return {"type": "CircularRegion", "cx": cx, "cy": cy, "r": math.hypot(x2 - cx, y2 - cy) + delta}
        if how == "circum_minus":
            return {"type": "CircularRegion", "cx": cx, "cy": cy, "r": max(0.0, math.hypot(x2 - cx, y2 - cy) - delta - 1e-7)}
        if how == "inscr":
            return {"type": "CircularRegion", "cx": cx, "cy": cy, "r": min(x2 - x1, y2 - y1) / 2 + delta}
        return {"type": "CircularRegion", "cx": cx + shift, "cy": cy, "r": math.hypot(x2 - cx, y2 - cy) + abs(shift) + delta}
    cx, cy, r = old["cx"], old["cy"], old["r"]
    if how.startswith("miss"):
        how = "diag_cut"
    if how == "odd_cut" and r > 0:
        # a larger disc shifted in a direction that is neither axis-parallel nor diagonal (22.5 degrees off): the old disc sticks
        # out by a sliver that lies between its cardinal and its diagonal rim points
        d = 0.5 * r
        ang = math.radians(22.5 + 45.0 * (int(abs(shift) * 2) % 8 + (4 if shift < 0 else 0)))
        return {"type": "CircularRegion", "cx": cx + d * math.cos(ang), "cy": cy + d * math.sin(ang), "r": r + 0.96 * d}
    if how == "odd_cut":
        how = "diag_cut"
    if how in ("diag_in", "diag_cut"):
        # a larger disc whose centre lies diagonally from the old one: internally tangent (plus delta), or cutting off a cap of
        # the old disc although its four axis-extreme points are still inside
        a = max(r, 0.5) * (1.0 + abs(shift))
        b = a if shift >= 0 else a / 2
        far = math.hypot(a, b) + r
        if how == "diag_in":
            return {"type": "CircularRegion", "cx": cx - a, "cy": cy - b, "r": far + delta}
        ext = max(math.hypot(a + r, b), math.hypot(a, b + r))
        return {"type": "CircularRegion", "cx": cx - a, "cy": cy - b, "r": (ext + far) / 2 if r > 0 else far}
    if how == "grow":
        return {"type": "CircularRegion", "cx": cx, "cy": cy, "r": r + delta}
    if how == "shrink":
        return {"type": "CircularRegion", "cx": cx, "cy": cy, "r": max(0.0, r - delta - 1e-7)}
    if how == "shift":
        return {"type": "CircularRegion", "cx": cx + shift, "cy": cy, "r": r + delta}
    if how == "grow_one_side":
        return {"type": "CircularRegion", "cx": cx + shift, "cy": cy, "r": r + abs(shift) + delta}
    if how == "circum":
        return {"type": "RectangularRegion", "x1": cx - r - delta, "y1": cy - r - delta, "x2": cx + r + delta, "y2": cy + r + delta}
    if how == "circum_minus":
        return {"type": "RectangularRegion", "x1": cx - r + delta + 1e-7, "y1": cy - r - delta, "x2": cx + r + delta, "y2": cy + r + delta}
    if how == "inscr":
        hh = r * 0.7071067811865476 + delta
        return {"type": "RectangularRegion", "x1": cx - hh, "y1": cy - hh, "x2": cx + hh, "y2": cy + hh}
    return {"type": "RectangularRegion", "x1": cx - r, "y1": cy - r - delta, "x2": cx + r + shift, "y2": cy + r}


HOWS = ["grow", "grow", "shrink", "shift", "grow_one_side", "circum", "circum", "circum_minus", "inscr", "other",
        "cut0", "cut1", "cut2", "cut3", "diag_in", "diag_cut", "diag_cut", "miss0", "miss1", "miss2", "miss3", "odd_cut", "odd_cut"]


def machine(tier, col):  # pylint: disable=unused-argument
    import props.c12 as mod

    class Shrink(stateful.MachineMixin, RuleBasedStateMachine):
        MOD = mod
        COL = col

        @initialize(debug=st.booleans(), clear=st.booleans())
        def setup(self, debug, clear):
            self._init_case({"config": {"may_shrink": False, "debug": debug, "clear_after_print": clear}})

        @rule(rect=st.booleans(), a=coord, b=coord, w=st.sampled_from([0.0, 1.0, 4.0, 10.5]), h=st.sampled_from([0.0, 2.0, 6.0]),
              order=st.integers(0, 3))
        def add(self, rect, a, b, w, h, order):
            n = len(self.case["ops"])
            if rect:
                xs, ys = (a, a + w), (b, b + h)
                if order & 1:
                    xs = (xs[1], xs[0])       # corners may be given in any order
                if order & 2:
                    ys = (ys[1], ys[0])
                data = {"type": "RectangularRegion", "x1": xs[0], "y1": ys[0], "x2": xs[1], "y2": ys[1], "id": "r%d" % n}
            else:
                data = {"type": "CircularRegion", "cx": a, "cy": b, "r": w, "id": "r%d" % n}
            self.do(["api", "addExcludeRegion", data])

        @rule(pick=st.integers(0, 9), how=st.sampled_from(HOWS), delta=small, shift=st.sampled_from([0.0, 0.5, -2.0, 1e-9]))
        def add_with_existing_id(self, pick, how, delta, shift):
            """An add request that re-uses the id of an existing region (must not replace it by something smaller)."""
            cur = self.stepper.h.regions()
            if not cur:
                return
            old = cur[pick % len(cur)]
            new = derive(old, how, delta, shift)
            new["id"] = old["id"]
            self.do(["api", "addExcludeRegion", new])

        @rule(pick=st.integers(0, 9), how=st.sampled_from(HOWS), delta=small, shift=st.sampled_from([0.0, 0.5, -2.0, 1e-9]))
        def update(self, pick, how, delta, shift):
            cur = self.stepper.h.regions()
            if not cur:
                return
            old = cur[pick % len(cur)]
            new = derive(old, how, delta, shift)
            new["id"] = old["id"]
            self.do(["api", "updateExcludeRegion", new])

        @rule(pick=st.integers(0, 9), rect=st.booleans(), a=coord, b=coord, c=coord, d=coord)
        def update_random(self, pick, rect, a, b, c, d):
            cur = self.stepper.h.regions()
            if not cur:
                return
            old = cur[pick % len(cur)]
            new = ({"type": "RectangularRegion", "x1": a, "y1": b, "x2": c, "y2": d} if rect
                   else {"type": "CircularRegion", "cx": a, "cy": b, "r": abs(c - d)})
            new["id"] = old["id"]
            self.do(["api", "updateExcludeRegion", new])

        @rule(pick=st.integers(0, 9), keep=st.lists(st.sampled_from(["x1", "y1", "x2", "y2", "cx", "cy", "r"]), max_size=3, unique=True),
              val=st.sampled_from([0.5, 3.0, 12.0, 25.0]))
        def update_partial(self, pick, keep, val):
            """An update that names only some of the properties (the others are not the client's to omit, but it may)."""
            cur = self.stepper.h.regions()
            if not cur:
                return
            old = cur[pick % len(cur)]
            new = {"type": old["type"], "id": old["id"]}
            for k in keep:
                if k in old:
                    new[k] = val
            self.do(["api", "updateExcludeRegion", new])

        @rule(rect=st.booleans(), a=coord, b=coord)
        def region_defined_between_prints(self, rect, a, b):
            """The print ends, a region is defined while idle, a new print starts (the region is in force from its start)."""
            n = len(self.case["ops"])
            self.do(["event", "PRINT_DONE"])
            data = ({"type": "RectangularRegion", "x1": a, "y1": b, "x2": a + 6.0, "y2": b + 4.0, "id": "p%d" % n} if rect
                    else {"type": "CircularRegion", "cx": a, "cy": b, "r": 3.5, "id": "p%d" % n})
            self.do(["api", "addExcludeRegion", data])
            self.do(["event", "PRINT_STARTED"])

        @rule(pick=st.integers(0, 9), n=st.sampled_from([60, 400]), eps=st.sampled_from([5e-10, 2e-10, 1e-12]), go=st.integers(0, 9))
        def creep(self, pick, n, eps, go):
            """Many updates in a row, each shrinking the region by less than any rounding allowance (rare)."""
            cur = self.stepper.h.regions()
            if go == 0 and cur:
                self.do(["creep", cur[pick % len(cur)]["id"], n, eps])

        @rule(pick=st.integers(0, 9))
        def delete_lookalike_id(self, pick):
            """A delete request whose id is the number / the text that merely looks like an existing id."""
            cur = self.stepper.h.regions()
            if cur:
                rid = cur[pick % len(cur)]["id"]
                alt = int(rid) if isinstance(rid, str) and rid.isdigit() else (str(rid) if isinstance(rid, int) else None)
                if alt is not None:
                    self.do(["api", "deleteExcludeRegion", {"id": alt}])

        @rule(rect=st.booleans(), a=coord, b=coord, rid=st.sampled_from(["7", "12", 7, 12]))
        def add_digit_id(self, rect, a, b, rid):
            data = ({"type": "RectangularRegion", "x1": a, "y1": b, "x2": a + 5.0, "y2": b + 3.0, "id": rid} if rect
                    else {"type": "CircularRegion", "cx": a, "cy": b, "r": 2.5, "id": rid})
            self.do(["api", "addExcludeRegion", data])

        @rule(pick=st.integers(0, 9), vertical=st.booleans())
        def cut_back_to_a_neighbour(self, pick, vertical):
            """A second region is drawn over the far end of a rectangle, then the rectangle is cut back to beyond its middle: the
            stretch between the two is lost (whatever its corners, edge midpoints and centre say)."""
            cur = [r for r in self.stepper.h.regions() if r["type"] == "RectangularRegion"]
            if not cur:
                return
            old = cur[pick % len(cur)]
            x1, x2 = sorted((old["x1"], old["x2"]))
            y1, y2 = sorted((old["y1"], old["y2"]))
            n = len(self.case["ops"])
            if vertical:
                h = y2 - y1
                if not 1.0 <= h < 1e6:
                    return
                self.do(["api", "addExcludeRegion", {"type": "RectangularRegion", "x1": x1 - 1, "y1": y2 - h / 8, "x2": x2 + 1, "y2": y2 + 1, "id": "n%d" % n}])
                self.do(["api", "updateExcludeRegion", {"type": "RectangularRegion", "x1": x1, "y1": y1, "x2": x2, "y2": y1 + 0.6 * h, "id": old["id"]}])
            else:
                w = x2 - x1
                if not 1.0 <= w < 1e6:
                    return
                self.do(["api", "addExcludeRegion", {"type": "RectangularRegion", "x1": x2 - w / 8, "y1": y1 - 1, "x2": x2 + 1, "y2": y2 + 1, "id": "n%d" % n}])
                self.do(["api", "updateExcludeRegion", {"type": "RectangularRegion", "x1": x1, "y1": y1, "x2": x1 + 0.6 * w, "y2": y2, "id": old["id"]}])

        @rule(what=st.sampled_from(["off", "off", "on"]))
        def exclusion_switched_by_the_file(self, what):
            """'@ExcludeRegion off' / 'on' arrives from the file: regions stay as protected as they were."""
            self.do(["at", what])

        @rule(n=st.sampled_from([30, 105]), twin=st.booleans(), go=st.integers(0, 24))
        def burst(self, n, twin, go):
            """Many small regions (a print with many parts; rare), some of them twins with identical geometry and different ids."""
            if go == 0:
                self.do(["burst", n, twin, len(self.case["ops"])])

        @rule(which=st.sampled_from(["x2", "y2", "r"]))
        def add_unbounded(self, which):
            """A half-plane / unbounded region (an infinite coordinate is a legal float for the region classes)."""
            n = len(self.case["ops"])
            if which == "r":
                data = {"type": "CircularRegion", "cx": 300.0, "cy": 300.0, "r": 1e999, "id": "u%d" % n}
            else:
                data = {"type": "RectangularRegion", "x1": 200.0, "y1": 200.0, "x2": 210.0, "y2": 210.0, "id": "u%d" % n}
                data[which] = 1e999
            self.do(["api", "addExcludeRegion", data])

        @rule(pick=st.integers(0, 9))
        def delete(self, pick):
            cur = self.stepper.h.regions()
            if cur:
                self.do(["api", "deleteExcludeRegion", {"id": cur[pick % len(cur)]["id"]}])

        @rule(what=st.sampled_from(["shrink_on", "shrink_off", "shrink_off", "end", "start", "start", "pause", "clear_on", "clear_off"]))
        def environment(self, what):
            if what.startswith("shrink"):
                self.do(["setting", "mayShrinkRegionsWhilePrinting", what == "shrink_on"])
            elif what.startswith("clear"):
                # (the other option of the settings page: has no bearing on what may be changed during a print)
                self.do(["setting", "clearRegionsAfterPrintFinishes", what == "clear_on"])
            elif what == "end":
                self.do(["event", "PRINT_DONE"])
            elif what == "pause":
                self.do(["event", "PRINT_PAUSED"])
            else:
                self.do(["event", "PRINT_STARTED"])

    return Shrink


def selftest():
    plugin_harness.selftest()
